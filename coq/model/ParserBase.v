(* Parser model, part 1: result monad, coordinates, token stream with
   delivery-time effects, scope stack, generic attribute access on the
   uni-typed AST, the in-place AST surgery of c_parser.py / ast_transforms.py
   re-expressed by value.  Polymorphic in the token position type [P]. *)
From Coq Require Import List NArith Bool Arith.
Import ListNotations.
From PV Require Import Regex Base LexTables ParserTables AstDefs AstSpec AstImpl PyRepr NodeModel.
Open Scope N_scope.

Inductive crash_kind := CK_Assertion | CK_Attribute | CK_Value | CK_Index | CK_Type.

Section PB.
Variable P : Type.    (* provenance: a token position, or the file name in force (both opaque to the parser) *)

Record coord := mkCoord { cfile : P; cpos : P }.   (* Coord(file=clex.filename now, line/column of a token) *)

Definition node := value coord.

Record tok := mkTok { tk : kind; tv : str; tp : P }.

(* what the lexer delivers, one item per token() result or error callback *)
Inductive pitem :=
| PTok (k: kind) (v: str) (p: P) (file_after: P)
| PErr (msg: str) (p: P) (file: P)
| PCrash.

(* the location given to _parse_error: a Coord, a bare file name, the "?" string, or None *)
Inductive errloc := L_coord (c: coord) | L_file (f: P) | L_raw (s: str) | L_none.

Inductive res (A: Type) :=
| Ok (a: A)
| Err (l: errloc) (m: str)       (* ParseError(f"{coord}: {msg}") *)
| Crash (k: crash_kind)          (* any other exception *)
| OutOfFuel.                     (* recursion deeper than the fuel: RecursionError *)
Arguments Ok {A} a.
Arguments Err {A} l m.
Arguments Crash {A} k.
Arguments OutOfFuel {A}.

Record pstate := mkPS {
  raw : list pitem;                 (* not yet delivered *)
  eof_file : P;                     (* lexer filename after the last token() returned None *)
  before : list (option tok);       (* buffer[0:index], reversed *)
  after : list (option tok);        (* buffer[index:] *)
  idx : nat;                        (* _index *)
  scopes : list (list (option str * bool));  (* head = innermost *)
  curfile : P;                      (* clex.filename now *)
  ticks : N                         (* number of _TokenStream.next() calls *)
}.

Definition M (A: Type) := pstate -> res (A * pstate).
Definition ret {A} (a: A) : M A := fun s => Ok (a, s).
Definition bind {A B} (m: M A) (f: A -> M B) : M B :=
  fun s => match m s with
           | Ok (a, s') => f a s'
           | Err l msg => Err l msg
           | Crash k => Crash k
           | OutOfFuel => OutOfFuel
           end.
Definition fail {A} (l: errloc) (msg: str) : M A := fun _ => Err l msg.
Definition crash {A} (k: crash_kind) : M A := fun _ => Crash k.
Definition out_of_fuel {A} : M A := fun _ => OutOfFuel.
Definition get : M pstate := fun s => Ok (s, s).
Definition put (s: pstate) : M unit := fun _ => Ok (tt, s).

Notation "x <- m ;; f" := (bind m (fun x => f)) (at level 61, m at next level, right associativity).
Notation "m ;;; f" := (bind m (fun _ => f)) (at level 61, right associativity).

Definition lift_opt {A} (k: crash_kind) (o: option A) : M A :=
  match o with Some a => ret a | None => crash k end.

(* ---- scope stack --------------------------------------------------------------- *)
Definition name_eqb (a b: option str) : bool :=
  match a, b with
  | None, None => true
  | Some x, Some y => str_eqb x y
  | _, _ => false
  end.

Fixpoint scope_get (n: option str) (sc: list (option str * bool)) : option bool :=
  match sc with
  | [] => None
  | (k, v) :: r => if name_eqb n k then Some v else scope_get n r
  end.

Fixpoint scope_set (n: option str) (v: bool) (sc: list (option str * bool)) : list (option str * bool) :=
  match sc with
  | [] => [(n, v)]
  | (k, v0) :: r => if name_eqb n k then (k, v) :: r else (k, v0) :: scope_set n v r
  end.

Fixpoint is_type_in (n: option str) (scs: list (list (option str * bool))) : bool :=
  match scs with
  | [] => false
  | sc :: r => match scope_get n sc with Some b => b | None => is_type_in n r end
  end.

Definition name_repr (n: option str) : str :=
  match n with Some s => py_repr s | None => s2l "None" end.

Definition loc_of (c: option coord) : errloc :=
  match c with Some c => L_coord c | None => L_none end.

Definition push_scope : M unit :=
  fun s => Ok (tt, mkPS (raw s) (eof_file s) (before s) (after s) (idx s) ([] :: scopes s) (curfile s) (ticks s)).

Definition pop_scope : M unit :=
  fun s => match scopes s with
           | _ :: (_ :: _) as r => Ok (tt, mkPS (raw s) (eof_file s) (before s) (after s) (idx s) r (curfile s) (ticks s))
           | _ => Crash CK_Assertion
           end.

Definition set_top (f: list (option str * bool) -> list (option str * bool)) : M unit :=
  fun s => match scopes s with
           | top :: r => Ok (tt, mkPS (raw s) (eof_file s) (before s) (after s) (idx s) (f top :: r) (curfile s) (ticks s))
           | [] => Crash CK_Index
           end.

Definition add_typedef_name (n: option str) (c: option coord) : M unit :=
  s <- get ;;
  match scopes s with
  | [] => crash CK_Index
  | top :: _ =>
    match scope_get n top with
    | Some false => fail (loc_of c) (s2l "Typedef " ++ name_repr n ++ s2l " previously declared as non-typedef in this scope")
    | _ => set_top (scope_set n true)
    end
  end.

Definition add_identifier (n: option str) (c: option coord) : M unit :=
  s <- get ;;
  match scopes s with
  | [] => crash CK_Index
  | top :: _ =>
    match scope_get n top with
    | Some true => fail (loc_of c) (s2l "Non-typedef " ++ name_repr n ++ s2l " previously declared as typedef in this scope")
    | _ => set_top (scope_set n false)
    end
  end.

Definition is_type_in_scope (n: option str) : M bool :=
  s <- get ;; ret (is_type_in n (scopes s)).

(* ---- token stream ----------------------------------------------------------------- *)
(* one lexer.token() call followed by _buffer.append *)
Definition deliver1 : M unit :=
  fun s =>
    match raw s with
    | [] =>
      Ok (tt, mkPS [] (eof_file s) (before s) (after s ++ [None]) (idx s) (scopes s) (eof_file s) (ticks s))
    | PCrash :: _ => Crash CK_Assertion
    | PErr msg p f :: _ => Err (L_coord (mkCoord f p)) msg
    | PTok k v p fa :: r =>
      let k' := if kind_eqb k K_ID then (if is_type_in (Some v) (scopes s) then K_TYPEID else K_ID) else k in
      let t := Some (mkTok k' v p) in
      if kind_eqb k K_LBRACE then
        Ok (tt, mkPS r (eof_file s) (before s) (after s ++ [t]) (idx s) ([] :: scopes s) fa (ticks s))
      else if kind_eqb k K_RBRACE then
        match scopes s with
        | _ :: (_ :: _) as sc' => Ok (tt, mkPS r (eof_file s) (before s) (after s ++ [t]) (idx s) sc' fa (ticks s))
        | _ => Err (L_file fa) (s2l "Unmatched '}'")     (* _lex_on_rbrace_func; clex.filename is the lexer's current file *)
        end
      else Ok (tt, mkPS r (eof_file s) (before s) (after s ++ [t]) (idx s) (scopes s) fa (ticks s))
    end.

Definition last_is_none (l: list (option tok)) : bool :=
  match last_opt l with Some None => true | _ => false end.

(* _fill(n): while len(buffer) < index + n: append token(); stop after appending None *)
Fixpoint fill_aux (fuel: nat) (n: nat) : M unit :=
  match fuel with
  | O => ret tt
  | S fu =>
    s <- get ;;
    if Nat.ltb (length (after s)) n then
      (deliver1 ;;;
       s' <- get ;;
       if last_is_none (after s') then ret tt else fill_aux fu n)
    else ret tt
  end.
Definition fill (n: nat) : M unit := fill_aux n n.

(* peek(k), k in {1,2} *)
Definition peek_k (k: nat) : M (option tok) :=
  fill k ;;;
  s <- get ;;
  match nth_error (after s) (Nat.pred k) with
  | Some t => ret t
  | None => crash CK_Index
  end.

Definition peek : M (option tok) := peek_k 1.
Definition peek_kind_k (k: nat) : M (option kind) := t <- peek_k k ;; ret (option_map tk t).
Definition peek_kind : M (option kind) := peek_kind_k 1.

Definition next_tok : M (option tok) :=
  fill 1 ;;;
  fun s => match after s with
           | t :: r => Ok (t, mkPS (raw s) (eof_file s) (t :: before s) r (S (idx s)) (scopes s) (curfile s) (ticks s + 1))
           | [] => Crash CK_Index
           end.

Definition mark : M nat := s <- get ;; ret (idx s).

Fixpoint unwind (n: nat) (b a: list (option tok)) : list (option tok) * list (option tok) :=
  match n with
  | O => (b, a)
  | S n' => match b with x :: b' => unwind n' b' (x :: a) | [] => (b, a) end
  end.

Definition reset (mk: nat) : M unit :=
  fun s => let (b, a) := unwind (nsub (idx s) mk) (before s) (after s) in
           Ok (tt, mkPS (raw s) (eof_file s) b a mk (scopes s) (curfile s) (ticks s)).

Definition cur_file : M P := s <- get ;; ret (curfile s).
Definition tok_coord (t: tok) : M coord := f <- cur_file ;; ret (mkCoord f (tp t)).

Definition s_before : str := s2l "before: ".

Definition advance : M tok :=
  t <- next_tok ;;
  match t with
  | Some t => ret t
  | None => f <- cur_file ;; fail (L_file f) (s2l "At end of input")
  end.

Definition accept (k: kind) : M (option tok) :=
  t <- peek ;;
  match t with
  | Some t' => if kind_eqb (tk t') k then (x <- advance ;; ret (Some x)) else ret None
  | None => ret None
  end.

Definition expect (k: kind) : M tok :=
  t <- advance ;;
  if kind_eqb (tk t) k then ret t
  else c <- tok_coord t ;; fail (L_coord c) (s_before ++ tv t).

Definition kind_in (k: kind) (l: list kind) : bool := existsb (kind_eqb k) l.
Definition okind_in (k: option kind) (l: list kind) : bool :=
  match k with Some k => kind_in k l | None => false end.
Definition okind_is (k: option kind) (k0: kind) : bool :=
  match k with Some k => kind_eqb k k0 | None => false end.

Definition starts_declaration : M bool := k <- peek_kind ;; ret (okind_in k tbl_DECL_START).
Definition starts_expression : M bool := k <- peek_kind ;; ret (okind_in k tbl_STARTS_EXPRESSION).
Definition starts_statement : M bool :=
  k <- peek_kind ;;
  match k with
  | None => ret false
  | Some k => if kind_in k tbl_STARTS_STATEMENT then ret true else starts_expression
  end.
Definition starts_declarator (id_only: bool) : M bool :=
  k <- peek_kind ;;
  match k with
  | None => ret false
  | Some k =>
    if kind_eqb k K_TIMES || kind_eqb k K_LPAREN then ret true
    else if id_only then ret (kind_eqb k K_ID)
    else ret (kind_eqb k K_ID || kind_eqb k K_TYPEID)
  end.

(* ---- generic attribute access (Python's dynamic typing) ----------------------------- *)
Definition is_cls (c: cls) (v: node) : bool :=
  match v with VNode c' _ _ => cls_eqb c c' | _ => false end.

Definition get_attr (x: str) (v: node) : option node :=
  match v with
  | VNode c fs _ => match impl_of c with Some ci => get_field coord ci fs x | None => None end
  | _ => None
  end.

Fixpoint set_nth {A} (i: nat) (x: A) (l: list A) {struct l} : list A :=
  match l with
  | [] => []
  | y :: r => match i with O => x :: r | S i' => y :: set_nth i' x r end
  end.

Definition set_attr (x: str) (nv: node) (v: node) : option node :=
  match v with
  | VNode c fs co =>
    match impl_of c with
    | Some ci => match index_of x (ci_slots ci) with
                 | Some i => if Nat.ltb i (length fs) then Some (VNode c (set_nth i nv fs) co) else None
                 | None => None
                 end
    | None => None
    end
  | _ => None
  end.

Definition get_coord (v: node) : option (option coord) :=   (* None = no .coord attribute *)
  match v with VNode _ _ co => Some co | _ => None end.
Definition set_coord (co: option coord) (v: node) : node :=
  match v with VNode c fs _ => VNode c fs co | _ => v end.

Definition truthy (v: node) : bool :=
  match v with VNone => false | VStr [] => false | VList [] => false | _ => true end.

Definition a_type := s2l "type".
Definition a_quals := s2l "quals".
Definition a_declname := s2l "declname".
Definition a_name := s2l "name".
Definition a_names := s2l "names".
Definition a_stmts := s2l "stmts".
Definition a_stmt := s2l "stmt".
Definition a_block_items := s2l "block_items".
Definition a_value := s2l "value".
Definition a_params := s2l "params".
Definition a_args := s2l "args".
Definition a_enumerators := s2l "enumerators".

Definition getA (x: str) (v: node) : M node := lift_opt CK_Attribute (get_attr x v).
Definition setA (x: str) (nv: node) (v: node) : M node := lift_opt CK_Attribute (set_attr x nv v).
Definition coordA (v: node) : M (option coord) := lift_opt CK_Attribute (get_coord v).

Definition vstrs (l: list str) : node := VList (map (fun s => VStr s) l).
Definition vopt (o: option node) : node := match o with Some n => n | None => VNone end.
Definition vostr (o: option str) : node := match o with Some s => VStr s | None => VNone end.

Definition str_in_vlist (s: str) (v: node) : option bool :=    (* `s in v` for a list; None = TypeError *)
  match v with
  | VList l => Some (existsb (fun e => match e with VStr x => str_eqb s x | _ => false end) l)
  | _ => None
  end.

Definition vlist_append (x: node) (v: node) : option node :=
  match v with VList l => Some (VList (l ++ [x])) | _ => None end.

Definition s_Atomic := s2l "_Atomic".

(* ---- _type_modify_decl --------------------------------------------------------------- *)
(* replace the falsy `.type` at the end of the modifier chain by x *)
Fixpoint set_tail (fuel: nat) (modifier x: node) : M node :=
  match fuel with
  | O => out_of_fuel
  | S f =>
    t <- getA a_type modifier ;;
    if truthy t then (t' <- set_tail f t x ;; setA a_type t' modifier)
    else setA a_type x modifier
  end.

Fixpoint splice (fuel: nat) (decl modifier: node) : M node :=
  match fuel with
  | O => out_of_fuel
  | S f =>
    t <- getA a_type decl ;;
    if is_cls C_TypeDecl t then (m' <- set_tail f modifier t ;; setA a_type m' decl)
    else (t' <- splice f t modifier ;; setA a_type t' decl)
  end.

Definition type_modify_decl (fuel: nat) (decl modifier: node) : M node :=
  (* the tail of the modifier is reached first (AttributeError there comes first) *)
  if is_cls C_TypeDecl decl then set_tail fuel modifier decl
  else
    _ <- set_tail fuel modifier VNone ;;
    splice fuel decl modifier.

(* apply f to the first TypeDecl reached by following .type from v (v itself included) *)
Fixpoint map_typedecl (fuel: nat) (f: node -> M node) (v: node) : M node :=
  match fuel with
  | O => out_of_fuel
  | S fu =>
    if is_cls C_TypeDecl v then f v
    else (t <- getA a_type v ;; t' <- map_typedecl fu f t ;; setA a_type t' v)
  end.

Fixpoint find_typedecl (fuel: nat) (v: node) : M node :=
  match fuel with
  | O => out_of_fuel
  | S fu => if is_cls C_TypeDecl v then ret v else (t <- getA a_type v ;; find_typedecl fu t)
  end.

(* ---- _fix_decl_name_type ---------------------------------------------------------------- *)
Definition mkN (c: cls) (fs: list node) (co: option coord) : node := VNode c fs co.

Definition all_names (tys: list node) : M (list node) :=
  (fix go (l: list node) : M (list node) :=
     match l with
     | [] => ret []
     | t :: r =>
       ns <- getA a_names t ;;
       rest <- go r ;;
       match ns with
       | VList l' => ret (l' ++ rest)
       | _ => crash CK_Type
       end
     end) tys.

Definition fix_decl_name_type (fuel: nat) (decl: node) (typename: list node) : M node :=
  typ <- find_typedecl fuel decl ;;
  dn <- getA a_declname typ ;;
  decl1 <- setA a_name dn decl ;;
  q <- getA a_quals decl1 ;;
  q' <- (match q with VList l => ret (VList l) | _ => crash CK_Type end) ;;   (* decl.quals[:] *)
  let set_inner (g: node -> M node) : M node := map_typedecl fuel g decl1 in
  let with_quals (t: node) : M node := setA a_quals q' t in
  match find (fun tn => negb (is_cls C_IdentifierType tn)) typename with
  | Some tn =>
    if Nat.ltb 1 (length typename) then
      (c <- coordA tn ;; fail (loc_of c) (s2l "Invalid multiple types specified"))
    else set_inner (fun t => t1 <- with_quals t ;; setA a_type tn t1)
  | None =>
    match typename with
    | [] =>
      dt <- getA a_type decl1 ;;
      dc <- coordA decl1 ;;
      if negb (is_cls C_FuncDecl dt) then fail (loc_of dc) (s2l "Missing type in declaration")
      else set_inner (fun t => t1 <- with_quals t ;; setA a_type (mkN C_IdentifierType [vstrs [s2l "int"]] dc) t1)
    | t0 :: _ =>
      names <- all_names typename ;;
      c0 <- coordA t0 ;;
      set_inner (fun t => t1 <- with_quals t ;; setA a_type (mkN C_IdentifierType [VList names] c0) t1)
    end
  end.

(* ---- ast_transforms.fix_atomic_specifiers ---------------------------------------------------- *)
Inductive once_res := OR_notfound | OR_keep (p: node) | OR_replace (x: node).

(* (parent p, node nd = p.type); has_gp: grandparent is not None *)
Fixpoint once_walk (fuel: nat) (has_gp: bool) (p nd: node) : M once_res :=
  match fuel with
  | O => out_of_fuel
  | S f =>
    match nd with
    | VNone =>
      (* loop left with node None: the asserts, then node.type on None *)
      if negb (is_cls C_TypeDecl p) || negb has_gp then crash CK_Assertion else crash CK_Attribute
    | _ =>
      let found :=
        if is_cls C_Typename nd then
          match get_attr a_quals nd with
          | Some q => match str_in_vlist s_Atomic q with Some b => Some b | None => None end
          | None => None
          end
        else Some false in
      match found with
      | None => crash CK_Type
      | Some true =>
        if negb (is_cls C_TypeDecl p) || negb has_gp then crash CK_Assertion
        else
          inner <- getA a_type nd ;;
          ic <- coordA inner ;;
          pc <- coordA p ;;
          let inner1 := match ic with None => set_coord pc inner | Some _ => inner end in
          iq0 <- getA a_quals inner1 ;;
          (* outer_quals = [q for q in (parent.quals or []) if q not in node.type.quals]; node.type.quals[:0] = outer_quals *)
          pq <- getA a_quals p ;;
          let pql := match pq with VList l => l | _ => [] end in
          iq <- (match pql with
                 | [] => ret iq0
                 | _ =>
                   match iq0 with
                   | VList il =>
                     let outer := filter (fun q => match q with
                                                   | VStr qs => negb (existsb (fun e => match e with VStr x => str_eqb qs x | _ => false end) il)
                                                   | _ => true end) pql in
                     ret (VList (outer ++ il))
                   | _ => crash CK_Type
                   end
                 end) ;;
          inner1b <- (match pql with [] => ret inner1 | _ => setA a_quals iq inner1 end) ;;
          match str_in_vlist s_Atomic iq with
          | None => crash CK_Type
          | Some true => ret (OR_replace inner1b)
          | Some false =>
            iq' <- lift_opt CK_Attribute (vlist_append (VStr s_Atomic) iq) ;;
            inner2 <- setA a_quals iq' inner1b ;;
            ret (OR_replace inner2)
          end
      | Some false =>
        match get_attr a_type nd with
        | None => ret OR_notfound          (* AttributeError: give up, decl unmodified *)
        | Some nt =>
          r <- once_walk f true nd nt ;;
          match r with
          | OR_notfound => ret OR_notfound
          | OR_keep nd' => p' <- setA a_type nd' p ;; ret (OR_keep p')
          | OR_replace x => p' <- setA a_type x p ;; ret (OR_keep p')
          end
        end
      end
    end
  end.

Definition fix_atomic_once (fuel: nat) (decl: node) : M (node * bool) :=
  dt <- getA a_type decl ;;
  r <- once_walk fuel false decl dt ;;
  match r with
  | OR_notfound => ret (decl, false)
  | OR_keep d' => ret (d', true)
  | OR_replace _ => crash CK_Assertion   (* unreachable: replacement needs a grandparent *)
  end.

Fixpoint fix_atomic_loop (fuel: nat) (decl: node) : M node :=
  match fuel with
  | O => out_of_fuel
  | S f =>
    r <- fix_atomic_once (S f) decl ;;
    if snd r then fix_atomic_loop f (fst r) else ret (fst r)
  end.

(* walk to the TypeDecl with try/except AttributeError -> return decl unchanged *)
Fixpoint find_typedecl_opt (fuel: nat) (v: node) : option (option node) :=   (* None = fuel; Some None = gave up *)
  match fuel with
  | O => None
  | S f => if is_cls C_TypeDecl v then Some (Some v)
           else match get_attr a_type v with
                | Some t => find_typedecl_opt f t
                | None => Some None
                end
  end.

Definition fix_atomic_specifiers (fuel: nat) (decl: node) : M node :=
  d1 <- fix_atomic_loop fuel decl ;;
  match find_typedecl_opt fuel d1 with
  | None => out_of_fuel
  | Some None => ret d1
  | Some (Some typ) =>
    tq <- getA a_quals typ ;;
    dq <- getA a_quals d1 ;;
    d2 <- (match str_in_vlist s_Atomic tq with
           | None => crash CK_Type
           | Some false => ret d1
           | Some true =>
             match str_in_vlist s_Atomic dq with
             | None => crash CK_Type
             | Some true => ret d1
             | Some false => dq' <- lift_opt CK_Attribute (vlist_append (VStr s_Atomic) dq) ;; setA a_quals dq' d1
             end
           end) ;;
    dn <- getA a_declname typ ;;
    match dn with
    | VNone => nm <- getA a_name d2 ;; map_typedecl fuel (fun t => setA a_declname nm t) d2
    | _ => ret d2
    end
  end.

(* ---- ast_transforms.fix_switch_cases ------------------------------------------------------------ *)
Definition is_case (v: node) : bool := is_cls C_Case v || is_cls C_Default v.

(* _extract_nested_case: returns the case node (possibly with its last stmt popped) followed by the extracted ones *)
Fixpoint extract_nested (fuel: nat) (c: node) : M (list node) :=
  match fuel with
  | O => out_of_fuel
  | S f =>
    st <- getA a_stmts c ;;
    match st with
    | VList (s0 :: rest) =>
      if is_case s0 then
        match last_opt (s0 :: rest) with
        | Some nested =>
          c' <- setA a_stmts (VList (drop_last (s0 :: rest))) c ;;
          more <- (if is_case nested then extract_nested f nested
                   else (* cast(Any, nested).stmts[0] on a non-case: AttributeError *) crash CK_Attribute) ;;
          ret (c' :: more)
        | None => crash CK_Index
        end
      else ret [c]
    | VList [] => crash CK_Index
    | _ => crash CK_Type
    end
  end.

Fixpoint switch_regroup (fuel: nat) (children: list node) (items: list node) (have_case: bool) : M (list node) :=
  match children with
  | [] => ret items
  | ch :: r =>
    if is_case ch then
      ex <- extract_nested fuel ch ;;
      switch_regroup fuel r (items ++ ex) true
    else if have_case then
      match last_opt items with
      | Some lc =>
        st <- getA a_stmts lc ;;
        st' <- lift_opt CK_Attribute (vlist_append ch st) ;;
        lc' <- setA a_stmts st' lc ;;
        switch_regroup fuel r (drop_last items ++ [lc']) true
      | None => crash CK_Index
      end
    else switch_regroup fuel r (items ++ [ch]) false
  end.

Definition fix_switch_cases (fuel: nat) (sw: node) : M node :=
  st <- getA a_stmt sw ;;
  if negb (is_cls C_Compound st) then ret sw
  else
    bi <- getA a_block_items st ;;
    sc <- coordA st ;;
    children <- (match bi with
                 | VNone => ret []
                 | VList l => ret l
                 | _ => crash CK_Type
                 end) ;;
    items <- switch_regroup fuel children [] false ;;
    setA a_stmt (mkN C_Compound [VList items] sc) sw.

End PB.

Arguments Ok {P A} a.
Arguments Err {P A} l m.
Arguments Crash {P A} k.
Arguments OutOfFuel {P A}.
Arguments tk {P} t.
Arguments tv {P} t.
Arguments tp {P} t.
Arguments cfile {P} c.
Arguments cpos {P} c.
