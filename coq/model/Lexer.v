(* Hand-written model of the control flow of pycparser/c_lexer.py (CLexer):
   token() loop, _match_token, _make_token, _error, _handle_ppline,
   _handle_pppragma.  Tables come from gen/LexTables.v (regenerated).

   The lexer's own state evolution does not depend on the results of its
   callbacks, so the model lexes eagerly into a list of items; identifier
   classification (ID vs TYPEID), brace callbacks and the error callback are
   applied when an item is delivered (model/TokStream.v). *)
From Coq Require Import List NArith Bool Arith.
Import ListNotations.
From PV Require Import Regex Base UnicodeTables LexTables PyRepr.
Open Scope N_scope.

Record lexst := mkLex {
  l_pos : N;          (* _pos *)
  l_line_start : N;   (* _line_start *)
  l_lineno : N;       (* _lineno *)
  l_file : str        (* _filename *)
}.

Definition init_lexst (filename: str) : lexst :=
  {| l_pos := 0; l_line_start := 0; l_lineno := 1; l_file := filename |}.

Inductive raw_item :=
| RTok (k: kind) (v: str) (line col: N) (file_after: str)
| RErr (msg: str) (line col: N) (file: str)
| RCrash.   (* `assert msg is not None` in _match_token *)

Definition column_of (st: lexst) (p: N) : N := p - l_line_start st + 1.
Definition mk_tok (st: lexst) (k: kind) (v: str) (p: N) : raw_item :=
  RTok k v (l_lineno st) (column_of st p) (l_file st).
Definition mk_err (st: lexst) (msg: str) (p: N) : raw_item :=
  RErr msg (l_lineno st) (column_of st p) (l_file st).

Definition lenN (s: str) : N := N.of_nat (length s).

(* ---- master regex: first alternative (in table order) that matches ---- *)
Fixpoint first_rule (rules: list rule) (n0: nat) (s: str) : option (rule * nat) :=
  match rules with
  | [] => None
  | r :: rs =>
    match match_re n0 (rre r) s with
    | Some (len, _) => Some (r, len)
    | None => first_rule rs n0 s
    end
  end.

(* ---- fixed tokens: bucket of the first character, first prefix match ---- *)
Fixpoint bucket_of (c: N) (bs: list (N * list (kind * str))) : option (list (kind * str)) :=
  match bs with
  | [] => None
  | (c', b) :: bs' => if N.eqb c c' then Some b else bucket_of c bs'
  end.

Fixpoint bucket_scan (b: list (kind * str)) (s: str) : option (kind * str) :=
  match b with
  | [] => None
  | (k, lit) :: b' => if starts_with lit s then Some (k, lit) else bucket_scan b' s
  end.

Definition fixed_match (s: str) : option (kind * str) :=
  match s with
  | [] => None
  | c :: _ => match bucket_of c fixed_by_first with
              | Some b => bucket_scan b s
              | None => None
              end
  end.

Inductive best_t :=
| BRegex (r: rule) (len: nat)
| BFixed (k: kind) (len: nat).

Definition choose_best (n0: nat) (s: str) : option best_t :=
  let rg := first_rule regex_rules n0 s in
  match fixed_match s with
  | Some (k, lit) =>
    match rg with
    | Some (r, len) => if Nat.ltb len (length lit) then Some (BFixed k (length lit)) else Some (BRegex r len)
    | None => Some (BFixed k (length lit))
    end
  | None => match rg with Some (r, len) => Some (BRegex r len) | None => None end
  end.

Definition keyword_kind (v: str) : kind :=
  match assoc_str v keyword_map with Some k => k | None => K_ID end.

Definition msg_illegal (c: N) : str := s2l "Illegal character " ++ py_repr [c].
Definition msg_bad_char_const (v: str) : str := s2l "Invalid char constant " ++ v.
Definition name_BAD_CHAR_CONST : str := s2l "BAD_CHAR_CONST".

(* one call of _match_token at a non-empty rest; returns emitted items, new state, new rest *)
Definition match_token (n0: nat) (st: lexst) (rest: str) : list raw_item * lexst * str :=
  let pos := l_pos st in
  let adv (k: nat) := mkLex (pos + N.of_nat k) (l_line_start st) (l_lineno st) (l_file st) in
  match choose_best n0 rest with
  | None =>
    match rest with
    | c :: rest' => ([mk_err st (msg_illegal c) pos], adv 1%nat, rest')
    | [] => ([], st, rest)   (* not reached: caller guarantees rest non-empty *)
    end
  | Some (BFixed k len) =>
    ([mk_tok st k (firstn len rest) pos], adv len, skipn len rest)
  | Some (BRegex r len) =>
    let value := firstn len rest in
    match ract r with
    | A_TOKEN k => ([mk_tok st k value pos], adv len, skipn len rest)
    | A_ID => ([mk_tok st (keyword_kind value) value pos], adv len, skipn len rest)
    | A_ERROR msg =>
      let len' := Nat.max 1 len in
      let msg' := if str_eqb (rname r) name_BAD_CHAR_CONST then Some (msg_bad_char_const value) else msg in
      match msg' with
      | None => ([RCrash], st, rest)
      | Some mm => ([mk_err st mm pos], adv len', skipn len' rest)
      end
    end
  end.

(* ---- #line ---------------------------------------------------------------- *)
Definition is_blank (c: N) : bool := N.eqb c 32 || N.eqb c 9.

Fixpoint skip_ws (off: N) (l: str) : N * str :=
  match l with
  | c :: l' => if is_blank c then skip_ws (off + 1) l' else (off, l)
  | [] => (off, l)
  end.

Fixpoint split_line (s: str) : str * str :=   (* (line without newline, rest starting at the newline or empty) *)
  match s with
  | [] => ([], [])
  | c :: s' => if N.eqb c 10 then ([], s) else let (a, b) := split_line s' in (c :: a, b)
  end.

Fixpoint lstrip_q (s: str) : str :=
  match s with c :: s' => if N.eqb c 34 then lstrip_q s' else s | [] => [] end.
Definition rstrip_q (s: str) : str := rev (lstrip_q (rev s)).

Definition msg_invalid_line : str := s2l "invalid #line directive".

(* trailing numeric flags: returns None on success, Some offset on failure *)
Fixpoint ppline_flags (fuel: nat) (off: N) (l: str) : option N :=
  match fuel with
  | O => None
  | S f =>
    let (off1, l1) := skip_ws off l in
    match l1 with
    | [] => None
    | _ =>
      match match_re (length l1) re_decimal_constant l1 with
      | None => Some off1
      | Some (len, l2) => ppline_flags f (off1 + N.of_nat len) l2
      end
    end
  end.

Inductive ppline_res :=
| PL_success (pp_line: option str) (pp_file: option str)
| PL_fail (msg: str) (off: N).

Definition ppline_scan (line: str) : ppline_res :=
  let (off0, l0) := skip_ws 0 line in
  let '(off1, l1) := if starts_with (s2l "line") l0 then (off0 + 4, skipn 4 l0) else (off0, l0) in
  let (off2, l2) := skip_ws off1 l1 in
  match l2 with
  | [] => PL_success None None
  | c :: _ =>
    if N.eqb c 34 then PL_fail (s2l "filename before line number in #line") off2
    else
    match match_re (length l2) re_decimal_constant l2 with
    | None => PL_fail msg_invalid_line off2
    | Some (len, l3) =>
      let pp_line := firstn len l2 in
      let (off4, l4) := skip_ws (off2 + N.of_nat len) l3 in
      match l4 with
      | [] => PL_success (Some pp_line) None
      | c4 :: _ =>
        if negb (N.eqb c4 34) then PL_fail msg_invalid_line off4
        else
        match match_re (length l4) re_string_literal l4 with
        | None => PL_fail msg_invalid_line off4
        | Some (slen, l5) =>
          let lit := firstn slen l4 in
          let fname := rstrip_q (lstrip_q lit) in
          match ppline_flags (S (length l5)) (off4 + N.of_nat slen) l5 with
          | Some off => PL_fail msg_invalid_line off
          | None => PL_success (Some pp_line) (Some fname)
          end
        end
      end
    end
  end.

(* st: _pos already points after the '#'; rest: text after the '#' *)
Definition handle_ppline (st: lexst) (rest: str) : list raw_item * lexst * str :=
  let (line, after) := split_line rest in
  let line_len := lenN line in
  let pos := l_pos st in
  let next_pos := pos + line_len + 1 in
  let after' := match after with _ :: a => a | [] => [] end in
  match ppline_scan line with
  | PL_fail msg off =>
    ([mk_err st msg (pos + off)], mkLex next_pos next_pos (l_lineno st) (l_file st), after')
  | PL_success None _ =>
    ([mk_err st (s2l "line number missing in #line") (pos + line_len)],
     mkLex next_pos next_pos (l_lineno st) (l_file st), after')
  | PL_success (Some pl) pf =>
    if forallb is_ascii_digit pl then
      ([], mkLex next_pos next_pos (N_of_dec pl)
                 (match pf with Some f => f | None => l_file st end), after')
    else
      (* int() raised ValueError: error reported, _pos NOT moved past the line *)
      ([mk_err st msg_invalid_line (pos + line_len)], st, rest)
  end.

(* ---- #pragma -------------------------------------------------------------- *)
Definition s_pragma : str := s2l "pragma".

Definition handle_pppragma (st: lexst) (rest: str) : list raw_item * lexst * str :=
  let (p1, r1) := skip_ws (l_pos st) rest in
  match r1 with
  | [] => ([], mkLex p1 (l_line_start st) (l_lineno st) (l_file st), [])
  | _ :: r1tl =>
    if negb (starts_with s_pragma r1) then
      ([mk_err st (s2l "invalid #pragma directive") p1],
       mkLex (p1 + 1) (l_line_start st) (l_lineno st) (l_file st), r1tl)
    else
      let t1 := mk_tok st K_PPPRAGMA s_pragma p1 in
      let (start, r2) := skip_ws (p1 + 6) (skipn 6 r1) in
      let (body, after) := split_line r2 in
      let p3 := start + lenN body in
      let toks := match body with [] => [t1] | _ => [t1; mk_tok st K_PPPRAGMASTR body start] end in
      match after with
      | _ :: a => (toks, mkLex (p3 + 1) (p3 + 1) (l_lineno st + 1) (l_file st), a)
      | [] => (toks, mkLex p3 (l_line_start st) (l_lineno st) (l_file st), [])
      end
  end.

(* ---- the token() loop, one iteration ------------------------------------------- *)
Definition lex_iter (n0: nat) (st: lexst) (rest: str) : list raw_item * lexst * str :=
  match rest with
  | [] => ([], st, [])
  | c :: rest' =>
    if is_blank c then
      ([], mkLex (l_pos st + 1) (l_line_start st) (l_lineno st) (l_file st), rest')
    else if N.eqb c 10 then
      ([], mkLex (l_pos st + 1) (l_pos st + 1) (l_lineno st + 1) (l_file st), rest')
    else if N.eqb c 35 then
      let st1 := mkLex (l_pos st + 1) (l_line_start st) (l_lineno st) (l_file st) in
      match match_re n0 re_line_pattern rest' with
      | Some _ => handle_ppline st1 rest'
      | None =>
        match match_re n0 re_pragma_pattern rest' with
        | Some _ => handle_pppragma st1 rest'
        | None => ([mk_tok st K_PPHASH [35] (l_pos st)], st1, rest')
        end
      end
    else match_token n0 st rest
  end.

Definition has_crash (items: list raw_item) : bool :=
  existsb (fun i => match i with RCrash => true | _ => false end) items.

(* Eager lexing of the whole input.  [fuel] is at least the length of the
   remaining input plus one; it is also the star fuel of the regex matcher.
   The third component is false iff the fuel ran out with input remaining
   (never, by proofs/LexerProofs.v: lex_terminates). *)
Fixpoint raw_lex (fuel: nat) (st: lexst) (rest: str) : list raw_item * lexst * bool :=
  match rest with
  | [] => ([], st, true)
  | _ =>
    match fuel with
    | O => ([], st, false)
    | S f =>
      let '(items, st', rest') := lex_iter fuel st rest in
      if has_crash items then (items, st', true)
      else let '(more, stf, c) := raw_lex f st' rest' in (items ++ more, stf, c)
    end
  end.

Definition lex_all (text filename: str) : list raw_item * lexst :=
  fst (raw_lex (S (length text)) (init_lexst filename) text).
