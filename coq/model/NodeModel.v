(* Generic model of c_ast.py:
   - [template]: what _ast_gen.py's code templates compute for one cfg entry;
   - uni-typed AST values (a node = class + positional field values + coord),
     mirroring Python's dynamic typing;
   - interpreters of the statically read children() / __iter__ programs;
   - Node.show and NodeVisitor (hand-modelled, tied by correspondence). *)
From Coq Require Import List NArith Bool Arith.
Import ListNotations.
From PV Require Import Regex Base AstDefs AstSpec AstImpl PyRepr.
Open Scope N_scope.

(* ---- the code templates of _ast_gen.py -------------------------------------- *)
Definition s_coord := s2l "coord".
Definition s_weakref := s2l "__weakref__".

Definition template (cs: class_spec) : class_impl :=
  let all := map fst (cs_entries cs) in
  let childs := map fst (filter (fun e => match snd e with EChild => true | _ => false end) (cs_entries cs)) in
  let seqs := map fst (filter (fun e => match snd e with ESeq => true | _ => false end) (cs_entries cs)) in
  let attrs := map fst (filter (fun e => match snd e with EAttr => true | _ => false end) (cs_entries cs)) in
  {| ci_name := cs_name cs;
     ci_slots := all ++ [s_coord; s_weakref];
     ci_params := all ++ [s_coord];
     ci_ndefaults := 1;
     ci_assigns := map (fun n => (n, n)) (all ++ [s_coord]);
     ci_children := match all with
                    | [] => CP_empty
                    | _ => CP_steps (map (fun c => CS_child c c c) childs ++ map (fun c => CS_seq c c) seqs)
                    end;
     ci_iter := match childs ++ seqs with
                | [] => IP_empty
                | _ => IP_steps (map (fun c => IS_child c c) childs ++ map (fun c => IS_seq c) seqs)
                end;
     ci_attr_names := attrs |}.

(* ---- values ------------------------------------------------------------------- *)
Section Values.
Variable P : Type.   (* the coordinate object *)

Inductive value :=
| VNone
| VStr (s: str)
| VList (l: list value)
| VNode (c: cls) (fs: list value) (co: option P).

Definition impl_of (c: cls) : option class_impl := nth_error ast_impl (N.to_nat (cls_index c)).

Fixpoint index_of (x: str) (l: list str) : option nat :=
  match l with
  | [] => None
  | y :: l' => if str_eqb x y then Some O else option_map S (index_of x l')
  end.

(* attribute access self.X on a node; None = AttributeError *)
Definition get_field (ci: class_impl) (fs: list value) (x: str) : option value :=
  match index_of x (ci_slots ci) with
  | Some i => nth_error fs i
  | None => None
  end.

(* `X or []` as an iterable of children.  None (unsupported) for shapes the
   parser never stores in a sequence slot (a non-empty str, a node). *)
Definition seq_items (v: value) : option (list value) :=
  match v with
  | VNone => Some []
  | VList l => Some l
  | VStr [] => Some []
  | _ => None
  end.

Fixpoint indexed_labels (l: str) (i: N) (vs: list value) : list (str * value) :=
  match vs with
  | [] => []
  | v :: vs' => (l ++ [91] ++ dec_of_N i ++ [93], v) :: indexed_labels l (i + 1) vs'
  end.

Fixpoint run_children (ci: class_impl) (fs: list value) (steps: list cstep) : option (list (str * value)) :=
  match steps with
  | [] => Some []
  | CS_child x l y :: r =>
    match get_field ci fs x with
    | None => None
    | Some VNone => run_children ci fs r
    | Some _ =>
      match get_field ci fs y, run_children ci fs r with
      | Some v, Some rest => Some ((l, v) :: rest)
      | _, _ => None
      end
    end
  | CS_seq x l :: r =>
    match get_field ci fs x with
    | None => None
    | Some v =>
      match seq_items v, run_children ci fs r with
      | Some items, Some rest => Some (indexed_labels l 0 items ++ rest)
      | _, _ => None
      end
    end
  end.

Definition children_of (ci: class_impl) (fs: list value) : option (list (str * value)) :=
  match ci_children ci with
  | CP_empty => Some []
  | CP_steps s => run_children ci fs s
  end.

Fixpoint run_iter (ci: class_impl) (fs: list value) (steps: list istep) : option (list value) :=
  match steps with
  | [] => Some []
  | IS_child x y :: r =>
    match get_field ci fs x with
    | None => None
    | Some VNone => run_iter ci fs r
    | Some _ =>
      match get_field ci fs y, run_iter ci fs r with
      | Some v, Some rest => Some (v :: rest)
      | _, _ => None
      end
    end
  | IS_seq x :: r =>
    match get_field ci fs x with
    | None => None
    | Some v =>
      match seq_items v, run_iter ci fs r with
      | Some items, Some rest => Some (items ++ rest)
      | _, _ => None
      end
    end
  end.

Definition iter_of (ci: class_impl) (fs: list value) : option (list value) :=
  match ci_iter ci with
  | IP_empty => Some []
  | IP_steps s => run_iter ci fs s
  end.

Definition children (v: value) : option (list (str * value)) :=
  match v with
  | VNode c fs _ => match impl_of c with Some ci => children_of ci fs | None => None end
  | _ => None
  end.

Definition iter (v: value) : option (list value) :=
  match v with
  | VNode c fs _ => match impl_of c with Some ci => iter_of ci fs | None => None end
  | _ => None
  end.

(* the constructor: positional arguments in parameter order, coord optional *)
Definition construct (c: cls) (args: list value) (co: option P) : option value :=
  match impl_of c with
  | Some ci => if Nat.eqb (S (length args)) (length (ci_params ci)) then Some (VNode c args co) else None
  | None => None
  end.

(* ---- Node.__repr__ / _repr ------------------------------------------------------ *)
Fixpoint replace_nl (pad: str) (s: str) : str :=   (* s.replace("\n", "\n" + pad) *)
  match s with
  | [] => []
  | c :: s' => if N.eqb c 10 then 10 :: pad ++ replace_nl pad s' else c :: replace_nl pad s'
  end.

Definition spaces (n: nat) : str := repeat 32 n.

Definition s_None := s2l "None".

Section Repr.
Variable pr : N -> bool.   (* str.isprintable oracle *)

Fixpoint repr_value (fuel: nat) (v: value) : str :=
  match fuel with
  | O => []
  | S f =>
    match v with
    | VNone => s_None
    | VStr s => py_repr_with pr s
    | VList l =>
      (* "[" + ",\n ".join(_repr(e).replace("\n", "\n ")) + "\n]" *)
      [91] ++ join_str [44; 10; 32] (map (fun e => replace_nl [32] (repr_value f e)) l) ++ [10; 93]
    | VNode c fs _ =>
      match impl_of c with
      | None => []
      | Some ci =>
        let cname := ci_name ci in
        let names := firstn (length (ci_slots ci) - 2) (ci_slots ci) in
        let indent := 10 :: 32 :: spaces (length cname) in
        let field (name: str) : str :=
          match get_field ci fs name with
          | Some fv => name ++ [61] ++ replace_nl (32 :: 32 :: spaces (length name + length cname)) (repr_value f fv)
          | None => []
          end in
        let fix go (first: bool) (ns: list str) : str :=
          match ns with
          | [] => []
          | n :: ns' => (if first then [] else [44] ++ indent) ++ field n ++ go false ns'
          end in
        cname ++ [40] ++ go true names ++ (match names with [] => [] | _ => indent end) ++ [41]
      end
    end
  end.

End Repr.


(* ---- Node.show -------------------------------------------------------------------- *)
Record show_opts := { so_attrnames: bool; so_showemptyattrs: bool; so_nodenames: bool; so_showcoord: bool }.

Definition is_empty_attr (v: value) : bool :=
  match v with VNone => true | VStr [] => true | VList [] => true | _ => false end.

Section Show.
Variable pr : N -> bool.
Variable coord_str : option P -> str.   (* str(self.coord) *)
Variable o : show_opts.

(* python-level str of an attribute: lists print with plain repr of their elements *)
Fixpoint plain_repr (fuel: nat) (v: value) : str :=
  match fuel with
  | O => []
  | S f =>
    match v with
    | VNone => s_None
    | VStr s => py_repr_with pr s
    | VList l => [91] ++ join_str [44; 32] (map (plain_repr f) l) ++ [93]
    | VNode _ _ _ => repr_value pr (S f) v
    end
  end.
Definition attr_str (fuel: nat) (v: value) : str :=
  match v with VStr s => s | _ => plain_repr fuel v end.

Fixpoint show (fuel: nat) (offset: nat) (my_name: option str) (v: value) : option str :=
  match fuel with
  | O => None
  | S f =>
    match v with
    | VNode c fs co =>
      match impl_of c with
      | None => None
      | Some ci =>
        let lead := spaces offset in
        let head := match so_nodenames o, my_name with
                    | true, Some nm => lead ++ ci_name ci ++ s2l " <" ++ nm ++ s2l ">: "
                    | _, _ => lead ++ ci_name ci ++ s2l ": "
                    end in
        let nv := filter (fun p => so_showemptyattrs o || negb (is_empty_attr (snd p)))
                    (flat_map (fun n => match get_field ci fs n with Some a => [(n, a)] | None => [] end) (ci_attr_names ci)) in
        let attrstr := join_str [44; 32]
                         (map (fun p => if so_attrnames o then fst p ++ [61] ++ attr_str fuel (snd p) else attr_str fuel (snd p)) nv) in
        let coordstr := if so_showcoord o then s2l " (at " ++ coord_str co ++ [41] else [] in
        match children_of ci fs with
        | None => None
        | Some ch =>
          let fix go (l: list (str * value)) : option str :=
            match l with
            | [] => Some []
            | (nm, cv) :: l' =>
              match show f (offset + 2) (Some nm) cv, go l' with
              | Some a, Some b => Some (a ++ b)
              | _, _ => None
              end
            end in
          match go ch with
          | Some rest => Some (head ++ attrstr ++ coordstr ++ [10] ++ rest)
          | None => None
          end
        end
      end
    | _ => None      (* child.show on a non-node: AttributeError *)
    end
  end.
End Show.

(* ---- NodeVisitor -------------------------------------------------------------------- *)
(* A visitor subclass is described by which classes have a visit_X method and
   whether that method calls generic_visit.  The trace of visited nodes (class
   names, in order of the calls of visit_X / generic_visit) is the observable. *)
Inductive handler := H_generic | H_stop | H_recurse.   (* no visit_X | visit_X without / with generic_visit *)

Section Visitor.
Variable handler_of : cls -> handler.   (* getattr(self, "visit_"+name, self.generic_visit) *)

(* the method cache: class -> resolved handler; lookups fill it *)
Definition cache := list (cls * handler).
Fixpoint cache_get (c: cls) (m: cache) : option handler :=
  match m with
  | [] => None
  | (c', h) :: m' => if cls_eqb c c' then Some h else cache_get c m'
  end.

Definition resolve (c: cls) (m: cache) : handler * cache :=
  match cache_get c m with
  | Some h => (h, m)
  | None => let h := handler_of c in (h, (c, h) :: m)
  end.

(* returns (events, cache); an event = (class, intercepted?) *)
Fixpoint visit (fuel: nat) (m: cache) (v: value) : option (list (cls * bool) * cache) :=
  match fuel with
  | O => None
  | S f =>
    match v with
    | VNode c fs co =>
      let (h, m1) := resolve c m in
      let gen (m0: cache) : option (list (cls * bool) * cache) :=
        match children v with
        | None => None
        | Some ch =>
          (fix go (l: list (str * value)) (m2: cache) : option (list (cls * bool) * cache) :=
             match l with
             | [] => Some ([], m2)
             | (_, cv) :: l' =>
               match visit f m2 cv with
               | None => None
               | Some (ev1, m3) =>
                 match go l' m3 with
                 | None => None
                 | Some (ev2, m4) => Some (ev1 ++ ev2, m4)
                 end
               end
             end) ch m0
        end in
      match h with
      | H_generic => match gen m1 with Some (ev, m2) => Some ((c, false) :: ev, m2) | None => None end
      | H_stop => Some ([(c, true)], m1)
      | H_recurse => match gen m1 with Some (ev, m2) => Some ((c, true) :: ev, m2) | None => None end
      end
    | _ => None
    end
  end.
End Visitor.

End Values.

Arguments VNone {P}.
Arguments VStr {P} s.
Arguments VList {P} l.
Arguments VNode {P} c fs co.
