(* Request handler used by the extracted driver and by cases.v replays:
   one request (a list of numbers) in, one canonical result (code points) out.
   Request = opcode :: length-prefixed strings. *)
From Coq Require Import List NArith Bool Arith.
Import ListNotations.
From PV Require Import Regex Base UnicodeTables LexTables PyRepr Lexer.
Open Scope N_scope.

Definition US : N := 31.  (* field separator *)
Definition RS : N := 30.  (* record separator *)

Fixpoint take_str (n: nat) (l: list N) : str * list N :=
  match n with
  | O => ([], l)
  | S n' => match l with x :: l' => let (a, b) := take_str n' l' in (x :: a, b) | [] => ([], []) end
  end.

(* read one length-prefixed string *)
Definition rd_str (l: list N) : str * list N :=
  match l with
  | n :: l' => take_str (N.to_nat n) l'
  | [] => ([], [])
  end.

Definition fields (fs: list str) : str := join_str [US] fs.

Definition show_item (i: raw_item) : str :=
  match i with
  | RTok k v line col f => fields [s2l "T"; kind_name k; v; dec_of_N line; dec_of_N col; f]
  | RErr msg line col f => fields [s2l "E"; msg; dec_of_N line; dec_of_N col; f]
  | RCrash => s2l "C"
  end.

Definition api_lex (req: list N) : str :=
  let (fname, r1) := rd_str req in
  let (text, _) := rd_str r1 in
  let (items, stf) := lex_all text fname in
  join_str [RS] (map show_item items ++ [fields [s2l "F"; l_file stf]]).

(* regex rule index + length of the master regex at the head of a string *)
Definition api_master (req: list N) : str :=
  let (text, _) := rd_str req in
  match first_rule regex_rules (length text) text with
  | Some (r, len) => fields [rname r; dec_of_N (N.of_nat len)]
  | None => s2l "-"
  end.

Definition api_repr (req: list N) : str :=
  let (text, _) := rd_str req in py_repr text.

Definition handle (req: list N) : str :=
  match req with
  | 1 :: r => api_lex r
  | 2 :: r => api_master r
  | 3 :: r => api_repr r
  | _ => s2l "BADREQ"
  end.
