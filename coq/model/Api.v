(* Request handler used by the extracted driver and by cases.v replays:
   one request (a list of numbers) in, one canonical result (code points) out.
   Request = opcode :: length-prefixed strings. *)
From Coq Require Import List NArith ZArith Bool Arith.
Import ListNotations.
From PV Require Import Regex Base UnicodeTables LexTables PyRepr Lexer AstDefs AstSpec AstImpl NodeModel ParserTables ParserBase ParserDecl ParserMain ClimbProofs CppArgs.
From PV Require Generator.
From PV Require Import PyEval PyEvalTree.
Open Scope N_scope.

Definition US : N := 31.  (* field separator *)
Definition RS : N := 30.  (* record separator *)

Fixpoint take_str (n: nat) (l: list N) : str * list N :=
  match n with
  | O => ([], l)
  | S n' => match l with x :: l' => let (a, b) := take_str n' l' in (x :: a, b) | [] => ([], []) end
  end.

(* read one length-prefixed string *)
Definition rd_str (l: list N) : str * list N :=
  match l with
  | n :: l' => take_str (N.to_nat n) l'
  | [] => ([], [])
  end.

Definition fields (fs: list str) : str := join_str [US] fs.

Definition show_item (i: raw_item) : str :=
  match i with
  | RTok k v line col f => fields [s2l "T"; kind_name k; v; dec_of_N line; dec_of_N col; f]
  | RErr msg line col f => fields [s2l "E"; msg; dec_of_N line; dec_of_N col; f]
  | RCrash => s2l "C"
  end.

Definition api_lex (req: list N) : str :=
  let (fname, r1) := rd_str req in
  let (text, _) := rd_str r1 in
  let (items, stf) := lex_all text fname in
  join_str [RS] (map show_item items ++ [fields [s2l "F"; l_file stf]]).

(* regex rule index + length of the master regex at the head of a string *)
Definition api_master (req: list N) : str :=
  let (text, _) := rd_str req in
  match first_rule regex_rules (length text) text with
  | Some (r, len) => fields [rname r; dec_of_N (N.of_nat len)]
  | None => s2l "-"
  end.

Definition api_repr (req: list N) : str :=
  let (text, _) := rd_str req in py_repr text.

(* ---- generic nodes (C14, C15) ---------------------------------------------------- *)
Definition val := value str.   (* coordinate = its printed form *)

Fixpoint rd_value (fuel: nat) (l: list N) : option (val * list N) :=
  match fuel with
  | O => None
  | S f =>
    let fix rd_many (n: nat) (l: list N) : option (list val * list N) :=
      match n with
      | O => Some ([], l)
      | S n' => match rd_value f l with
                | Some (v, l1) => match rd_many n' l1 with Some (vs, l2) => Some (v :: vs, l2) | None => None end
                | None => None
                end
      end in
    match l with
    | 0 :: r => Some (VNone, r)
    | 1 :: r => let (s, r') := rd_str r in Some (VStr s, r')
    | 2 :: n :: r => match rd_many (N.to_nat n) r with Some (vs, r') => Some (VList vs, r') | None => None end
    | 3 :: ci :: n :: r =>
      match nth_error all_cls (N.to_nat ci), rd_many (N.to_nat n) r with
      | Some c, Some (vs, 0 :: r') => Some (VNode c vs None, r')
      | Some c, Some (vs, 1 :: r') => let (s, r'') := rd_str r' in Some (VNode c vs (Some s), r'')
      | _, _ => None
      end
    | _ => None
    end
  end.

Definition coord_str (co: option str) : str := match co with Some s => s | None => s2l "None" end.
Definition RFUEL : nat := 200.
Definition repr_v (v: val) : str := repr_value str isprintable RFUEL v.
Definition s_ERR := s2l "ERR".

Definition api_children (req: list N) : str :=
  match rd_value RFUEL req with
  | Some (v, _) => match children str v with
                   | Some ch => join_str [RS] (map (fun p => fields [fst p; repr_v (snd p)]) ch)
                   | None => s_ERR end
  | None => s2l "BADVALUE"
  end.

Definition api_iter (req: list N) : str :=
  match rd_value RFUEL req with
  | Some (v, _) => match iter str v with
                   | Some ch => join_str [RS] (map repr_v ch)
                   | None => s_ERR end
  | None => s2l "BADVALUE"
  end.

Definition nb (x: N) : bool := negb (N.eqb x 0).

Definition api_show (req: list N) : str :=
  match req with
  | a :: b :: c :: d :: r =>
    match rd_value RFUEL r with
    | Some (v, _) =>
      match show str isprintable coord_str {| so_attrnames := nb a; so_showemptyattrs := nb b; so_nodenames := nb c; so_showcoord := nb d |}
                 RFUEL 0 None v with
      | Some s => s
      | None => s_ERR
      end
    | None => s2l "BADVALUE"
    end
  | _ => s2l "BADREQ"
  end.

Definition api_repr_node (req: list N) : str :=
  match rd_value RFUEL req with
  | Some (v, _) => repr_v v
  | None => s2l "BADVALUE"
  end.

(* handlers: n pairs (class index, 1 = visit_X without generic_visit, 2 = with) *)
Fixpoint rd_handlers (n: nat) (l: list N) : list (N * N) * list N :=
  match n with
  | O => ([], l)
  | S n' => match l with
            | a :: b :: r => let (hs, r') := rd_handlers n' r in ((a, b) :: hs, r')
            | _ => ([], l)
            end
  end.

Definition handler_from (hs: list (N * N)) (c: cls) : handler :=
  match find (fun p => N.eqb (fst p) (cls_index c)) hs with
  | Some (_, 1) => H_stop
  | Some (_, _) => H_recurse
  | None => H_generic
  end.

Definition api_visit (req: list N) : str :=
  match req with
  | n :: r =>
    let (hs, r') := rd_handlers (N.to_nat n) r in
    match rd_value RFUEL r' with
    | Some (v, _) =>
      match visit str (handler_from hs) RFUEL [] v with
      | Some (ev, _) => join_str [RS] (map (fun e : cls * bool => fields [cls_name (fst e); if snd e then s2l "1" else s2l "0"]) ev)
      | None => s_ERR
      end
    | None => s2l "BADVALUE"
    end
  | _ => s2l "BADREQ"
  end.

(* ---- whole parser ------------------------------------------------------------------ *)
Definition pos := (str * (N * N))%type.   (* provenance: file name, (line, column) *)
Definition fpos (f: str) : pos := (f, (0, 0)).

Definition to_pitem (i: raw_item) : pitem pos :=
  match i with
  | RTok k v line col f => PTok pos k v (f, (line, col)) (fpos f)
  | RErr msg line col f => PErr pos msg (f, (line, col)) (fpos f)
  | RCrash => PCrash pos
  end.

Definition show_coord (c: coord pos) : str :=
  fst (cfile c) ++ [58] ++ dec_of_N (fst (snd (cpos c))) ++ [58] ++ dec_of_N (snd (snd (cpos c))).

Fixpoint show_ast (fuel: nat) (wc: bool) (v: node pos) : str :=
  match fuel with
  | O => s2l "<deep>"
  | S f =>
    match v with
    | VNone => s2l "None"
    | VStr s => py_repr s
    | VList l => [91] ++ join_str [44] (map (show_ast f wc) l) ++ [93]
    | VNode c fs co =>
      [40] ++ cls_name c ++ concat_str (map (fun x => 32 :: show_ast f wc x) fs) ++
      (if wc then s2l " @" ++ match co with Some c => show_coord c | None => s2l "None" end else []) ++ [41]
    end
  end.

Definition show_loc (l: errloc pos) : str :=
  match l with
  | L_coord _ c => show_coord c
  | L_file _ f => fst f
  | L_raw _ s => s
  | L_none _ => s2l "None"
  end.

Definition crash_name (k: crash_kind) : str :=
  match k with
  | CK_Assertion => s2l "AssertionError"
  | CK_Attribute => s2l "AttributeError"
  | CK_Value => s2l "ValueError"
  | CK_Index => s2l "IndexError"
  | CK_Type => s2l "TypeError"
  end.

Definition run_parse (text filename: str) : res pos (node pos * pstate pos) :=
  let '(items, stf, _) := raw_lex (S (length text)) (init_lexst filename) text in
  let fuel := (4 * length items + 3000)%nat in
  parse_tokens pos fuel (init_pstate pos (map to_pitem items) (fpos (l_file stf)) (fpos filename)).

Definition show_result (wc: bool) (r: res pos (node pos * pstate pos)) : str :=
  match r with
  | Ok (ast, st) => fields [s2l "OK"; show_ast (N.to_nat 100000) wc ast; dec_of_N (ticks pos st)]
  | Err l m => fields [s2l "E"; show_loc l ++ s2l ": " ++ m]
  | Crash k => fields [s2l "C"; crash_name k]
  | OutOfFuel => s2l "R"
  end.

(* outcome of the whole-pipeline model on a text, coordinates erased, token counter dropped *)
Definition outcome_str (text: str) : str :=
  match run_parse text (s2l "f.c") with
  | Ok (ast, _) => s2l "OK|" ++ show_ast (N.to_nat 1000) false ast
  | Err l m => s2l "E|" ++ show_loc l ++ s2l ": " ++ m
  | Crash k => s2l "C|" ++ crash_name k
  | OutOfFuel => s2l "R"
  end.

Definition api_parse (req: list N) : str :=
  match req with
  | wc :: r =>
    let (fname, r1) := rd_str r in
    let (text, _) := rd_str r1 in
    show_result (nb wc) (run_parse text fname)
  | _ => s2l "BADREQ"
  end.

(* ---- abstract precedence climbing (C02 component), operators given by kind index ----- *)
Definition prec_tbl (k: kind) : nat := match prec_of k with Some p => p | None => 0%nat end.

Fixpoint show_tree (t: tree nat kind) : str :=
  match t with
  | Leaf _ _ a => 97 :: dec_of_N (N.of_nat a)
  | Bin _ _ o l r => [40] ++ kind_name o ++ [32] ++ show_tree l ++ [32] ++ show_tree r ++ [41]
  end.

Fixpoint ops_to_rest (i: nat) (l: list N) : option (list (kind * nat)) :=
  match l with
  | [] => Some []
  | x :: r => match nth_error all_kinds (N.to_nat x), ops_to_rest (S i) r with
              | Some k, Some rr => Some ((k, i) :: rr)
              | _, _ => None
              end
  end.

Definition api_climb (req: list N) : str :=
  match ops_to_rest 1 req with
  | Some r =>
    match climb nat kind prec_tbl (2 * length r + 2) 0 (Leaf nat kind 0%nat) r with
    | Some (t, []) => show_tree t
    | _ => s2l "ERR"
    end
  | None => s2l "BADREQ"
  end.

(* ---- preprocess_file argument assembly: kind (0 = str, 1 = list), cpp, file, n args ------ *)
Fixpoint rd_strs (n: nat) (l: list N) : list str * list N :=
  match n with
  | O => ([], l)
  | S n' => let (s, r) := rd_str l in let (ss, r') := rd_strs n' r in (s :: ss, r')
  end.
Definition api_path_list (req: list N) : str :=
  match req with
  | k :: r =>
    let (cpp, r1) := rd_str r in
    let (file, r2) := rd_str r1 in
    match r2 with
    | n :: r3 =>
      let (args, _) := rd_strs (N.to_nat n) r3 in
      let a := if N.eqb k 0 then ArgStr (match args with s :: _ => s | [] => [] end) else ArgList args in
      join_str [RS] (path_list cpp a file)
    | [] => s2l "BADREQ"
    end
  | [] => s2l "BADREQ"
  end.

(* ticks only *)
Definition ticks_of (text: str) : N :=
  match run_parse text (s2l "f.c") with Ok (_, st) => ticks pos st | _ => 0 end.

(* ---- CGenerator: reduce_parentheses flag, then an encoded AST --------------------------- *)
Definition api_generate (req: list N) : str :=
  match req with
  | rpf :: r =>
    match rd_value RFUEL r with
    | Some (v, _) =>
      match Generator.generate str (nb rpf) 4000 v with
      | Generator.GOk (t, ind) => fields [s2l "OK"; t; if Z.eqb ind 0 then s2l "0" else s2l "nonzero"]
      | Generator.GCrash => s2l "CRASH"
      | Generator.GFuel => s2l "FUEL"
      end
    | None => s2l "BADVALUE"
    end
  | [] => s2l "BADREQ"
  end.

(* ---- round trip on the model: parse, generate, parse again ---------------------------- *)
Definition regen (rp: bool) (text: str) : option str :=
  match run_parse text (s2l "f.c") with
  | Ok (ast, _) => match Generator.generate (coord pos) rp 4000 ast with
                   | Generator.GOk (t, _) => Some t
                   | _ => None end
  | _ => None
  end.

(* parse(gen(parse(src))) = parse(src) up to coordinates, and the second generation equals the first *)
Definition roundtrip_ok (rp: bool) (text: str) : bool :=
  match regen rp text with
  | Some t1 =>
    str_eqb (outcome_str t1) (outcome_str text) &&
    match regen rp t1 with Some t2 => str_eqb t1 t2 | None => false end
  | None => false
  end.

(* eval of a repr text: the evaluator of PyEvalTree.v, result shown canonically (coords are None) *)
Definition api_eval_repr (req: list N) : str :=
  let (text, _) := rd_str req in
  match pyeval (coord pos) RFUEL text with
  | Some v => show_ast RFUEL true v
  | None => s2l "EVALFAIL"
  end.

Definition handle (req: list N) : str :=
  match req with
  | 1 :: r => api_lex r
  | 2 :: r => api_master r
  | 3 :: r => api_repr r
  | 20 :: r => api_parse r
  | 30 :: r => api_climb r
  | 40 :: r => api_path_list r
  | 50 :: r => api_generate r
  | 10 :: r => api_children r
  | 11 :: r => api_iter r
  | 12 :: r => api_show r
  | 13 :: r => api_repr_node r
  | 14 :: r => api_visit r
  | 15 :: r => api_eval_repr r
  | _ => s2l "BADREQ"
  end.
