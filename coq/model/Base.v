(* Basic string utilities.  Python `str` is a sequence of code points: [list N]. *)
From Coq Require Import List NArith Bool Arith String Ascii.
Import ListNotations.
From PV Require Import Regex.

(* Coq string literal -> code points (used for the constant strings of the code) *)
Fixpoint s2l (s: string) : str :=
  match s with
  | EmptyString => []
  | String a r => N_of_ascii a :: s2l r
  end.
Arguments s2l s%string.
Export String.StringSyntax.

Fixpoint str_eqb (a b: str) : bool :=
  match a, b with
  | [], [] => true
  | x :: a', y :: b' => N.eqb x y && str_eqb a' b'
  | _, _ => false
  end.

Fixpoint starts_with (p s: str) : bool :=
  match p with
  | [] => true
  | x :: p' => match s with y :: s' => N.eqb x y && starts_with p' s' | [] => false end
  end.

Definition mem_str (x: str) (l: list str) : bool := existsb (str_eqb x) l.

Fixpoint assoc_str {A} (x: str) (l: list (str * A)) : option A :=
  match l with
  | [] => None
  | (k, v) :: l' => if str_eqb x k then Some v else assoc_str x l'
  end.

(* decimal rendering of a natural number, as Python's str(int) *)
Fixpoint dec_digits (fuel: nat) (n: N) (acc: str) : str :=
  match fuel with
  | O => acc
  | S f =>
    let d := (48 + N.modulo n 10)%N in
    let q := N.div n 10 in
    if N.eqb q 0 then d :: acc else dec_digits f q (d :: acc)
  end.
Definition dec_of_N (n: N) : str := dec_digits (S (N.to_nat (N.log2 n))) n [].

(* parse a string of ASCII digits *)
Definition is_ascii_digit (c: N) : bool := N.leb 48 c && N.leb c 57.
Definition N_of_dec (s: str) : N :=
  fold_left (fun acc c => (acc * 10 + (c - 48))%N) s 0%N.

Definition hex_digit (d: N) : N := if N.ltb d 10 then (48 + d)%N else (87 + d)%N.  (* lower case *)
Fixpoint hex_fixed (width: nat) (n: N) (acc: str) : str :=
  match width with
  | O => acc
  | S w => hex_fixed w (N.shiftr n 4) (hex_digit (N.land n 15) :: acc)
  end.

(* truncated subtraction, structurally on the subtrahend *)
Fixpoint nsub (n m: nat) {struct m} : nat :=
  match m with
  | O => n
  | S m' => match n with O => O | S n' => nsub n' m' end
  end.

Fixpoint concat_str (l: list str) : str :=
  match l with [] => [] | x :: r => x ++ concat_str r end.

Fixpoint join_str (sep: str) (l: list str) : str :=
  match l with
  | [] => []
  | [x] => x
  | x :: r => x ++ sep ++ join_str sep r
  end.

Fixpoint last_opt {A} (l: list A) : option A :=
  match l with [] => None | [x] => Some x | _ :: r => last_opt r end.

Fixpoint drop_last {A} (l: list A) : list A :=
  match l with [] => [] | [x] => [] | x :: r => x :: drop_last r end.
