(* Parser model, part 3: every _parse_* production of c_parser.py as one
   mutual fixpoint on call-depth fuel.  Follows the Python source method by
   method; Python exceptions other than ParseError are explicit Crash results. *)
From Coq Require Import List NArith Bool Arith.
Import ListNotations.
From PV Require Import Regex Base LexTables ParserTables AstDefs AstSpec AstImpl PyRepr NodeModel ParserBase ParserDecl.
Open Scope N_scope.

Section PM.
Variable P : Type.
Notation node := (node P).
Notation M := (M P).
Notation coord := (coord P).
Notation tok := (tok P).
Notation dspec := (dspec P).
Notation dinfo := (dinfo P).

Notation "x <- m ;; f" := (bind P m (fun x => f)) (at level 61, m at next level, right associativity).
Notation "m ;;; f" := (bind P m (fun _ => f)) (at level 61, right associativity).
Notation ret := (ret P).
Notation fail := (fail P).
Notation crash := (crash P).
Notation oof := (out_of_fuel P).
Notation peek := (peek P).
Notation peek_kind := (peek_kind P).
Notation peek_kind_k := (peek_kind_k P).
Notation advance := (advance P).
Notation accept := (accept P).
Notation expect := (expect P).
Notation tok_coord := (tok_coord P).
Notation mkN := (mkN P).
Notation coordA := (coordA P).

Definition tcoord (t: tok) : M (option coord) := c <- tok_coord t ;; ret (Some c).
Definition is_some {A} (o: option A) : bool := match o with Some _ => true | None => false end.

(* ---- terminals ------------------------------------------------------------------ *)
Definition p_identifier : M node :=
  t <- expect K_ID ;; c <- tcoord t ;; ret (mkN C_ID [VStr (tv t)] c).

Definition p_identifier_or_typeid : M node :=
  t <- advance ;;
  c <- tok_coord t ;;
  if negb (kind_eqb (tk t) K_ID || kind_eqb (tk t) K_TYPEID) then fail (L_coord P c) (s2l "Expected identifier")
  else ret (mkN C_ID [VStr (tv t)] (Some c)).

Definition p_constant : M node :=
  t <- advance ;;
  c <- tok_coord t ;;
  if kind_in (tk t) tbl_INT_CONST then
    match int_const_type (kind_eqb (tk t) K_INT_CONST_CHAR) (tv t) with
    | Some ty => ret (mkConstant P ty (tv t) (Some c))
    | None => crash CK_Value
    end
  else if kind_in (tk t) tbl_FLOAT_CONST then
    match float_const_type (tv t) with
    | Some ty => ret (mkConstant P ty (tv t) (Some c))
    | None => crash CK_Index
    end
  else if kind_in (tk t) tbl_CHAR_CONST then ret (mkConstant P (s2l "char") (tv t) (Some c))
  else fail (L_coord P c) (s2l "Invalid constant").

Fixpoint concat_strings (fuel: nat) (v: str) : M str :=     (* node.value[:-1] + tok2.value[1:] *)
  match fuel with
  | O => oof
  | S f =>
    k <- peek_kind ;;
    if okind_is k K_STRING_LITERAL then (t2 <- advance ;; concat_strings f (drop_last v ++ skipn 1 (tv t2)))
    else ret v
  end.

Definition p_unified_string_literal (fuel: nat) : M node :=
  t <- expect K_STRING_LITERAL ;;
  c <- tcoord t ;;
  v <- concat_strings fuel (tv t) ;;
  ret (mkConstant P (s2l "string") v c).

Definition py_space (c: N) : bool :=
  (N.leb 9 c && N.leb c 13) || (N.leb 28 c && N.leb c 32) || N.eqb c 133 || N.eqb c 160.
Definition rstrip_ws (s: str) : str :=
  rev ((fix go (l: str) : str := match l with c :: r => if py_space c then go r else c :: r | [] => [] end) (rev s)).

(* tok2.value from just after its first double quote (a wide / unicode string token always contains one) *)
Fixpoint after_quote (s: str) : str :=
  match s with
  | [] => []
  | c :: r => if N.eqb c 34 then r else after_quote r
  end.

Fixpoint concat_wstrings (fuel: nat) (v: str) : M str :=    (* node.value.rstrip()[:-1] + tok2.value[index of the quote + 1:] *)
  match fuel with
  | O => oof
  | S f =>
    k <- peek_kind ;;
    if okind_in k tbl_WSTR_LITERAL then (t2 <- advance ;; concat_wstrings f (drop_last (rstrip_ws v) ++ after_quote (tv t2)))
    else ret v
  end.

Definition p_unified_wstring_literal (fuel: nat) : M node :=
  t <- advance ;;
  c <- tok_coord t ;;
  if negb (kind_in (tk t) tbl_WSTR_LITERAL) then fail (L_coord P c) (s2l "Invalid string literal")
  else v <- concat_wstrings fuel (tv t) ;; ret (mkConstant P (s2l "string") v (Some c)).

(* BNF: type_qualifier_list *)
Fixpoint p_type_qualifier_list (fuel: nat) : M (list str) :=
  match fuel with
  | O => oof
  | S f =>
    k <- peek_kind ;;
    if okind_in k tbl_TYPE_QUALIFIER then (t <- advance ;; r <- p_type_qualifier_list f ;; ret (tv t :: r))
    else ret []
  end.

(* BNF: pointer.  Returns None when there is no star. *)
Fixpoint p_pointer_stars (fuel: nat) : M (list (list str * option coord)) :=
  match fuel with
  | O => oof
  | S f =>
    t <- accept K_TIMES ;;
    match t with
    | None => ret []
    | Some tt' =>
      q <- p_type_qualifier_list f ;;
      c <- tcoord tt' ;;      (* coordinate is taken after the qualifiers were consumed *)
      r <- p_pointer_stars f ;;
      ret ((q, c) :: r)
    end
  end.

Definition p_pointer (fuel: nat) : M (option node) :=
  stars <- p_pointer_stars fuel ;;
  match stars with
  | [] => ret None
  | _ => ret (Some (fold_left (fun (ptr: node) (s: list str * option coord) =>
                                  mkN C_PtrDecl [vstrs P (fst s); ptr] (snd s)) stars VNone))
  end.

(* ---- _scan_declarator_name_info (always followed by a reset) ------------------------------ *)
Fixpoint skip_quals (fuel: nat) : M unit :=
  match fuel with
  | O => oof
  | S f => k <- peek_kind ;;
           if okind_in k tbl_TYPE_QUALIFIER then (advance ;;; skip_quals f) else ret tt
  end.

Fixpoint skip_stars (fuel: nat) : M unit :=
  match fuel with
  | O => oof
  | S f => t <- accept K_TIMES ;;
           match t with Some _ => skip_quals f ;;; skip_stars f | None => ret tt end
  end.

(* skip to the matching RPAREN; returns false if the input ended first *)
Fixpoint skip_to_rparen (fuel: nat) (depth: nat) : M bool :=
  match fuel with
  | O => oof
  | S f =>
    t <- peek ;;
    match t with
    | None => ret false
    | Some t' =>
      if kind_eqb (tk t') K_LPAREN then (advance ;;; skip_to_rparen f (S depth))
      else if kind_eqb (tk t') K_RPAREN then
        (advance ;;; match depth with
                     | 1%nat => ret true
                     | O => ret true
                     | S d => skip_to_rparen f d
                     end)
      else (advance ;;; skip_to_rparen f depth)
    end
  end.

Fixpoint scan_name_info (fuel: nat) : M (option kind * bool) :=
  match fuel with
  | O => oof
  | S f =>
    skip_stars f ;;;
    t <- peek ;;
    match t with
    | None => ret (None, false)
    | Some t' =>
      if kind_eqb (tk t') K_ID || kind_eqb (tk t') K_TYPEID then (advance ;;; ret (Some (tk t'), false))
      else if kind_eqb (tk t') K_LPAREN then
        advance ;;;
        r <- scan_name_info f ;;
        ok <- skip_to_rparen f 1 ;;
        if ok then ret (fst r, true) else ret (None, true)
      else ret (None, false)
    end
  end.

Definition peek_declarator_name_info (fuel: nat) : M (option kind * bool) :=
  mk <- mark P ;;
  r <- scan_name_info fuel ;;
  reset P mk ;;;
  ret r.

(* _parse_function_decl: parameter names of a function definition enter the body's scope *)
Fixpoint register_params (l: list node) : M unit :=
  match l with
  | [] => ret tt
  | p :: r =>
    if is_cls P C_EllipsisParam p then ret tt
    else
      match get_attr P a_name p with
      | Some nm =>
        if truthy P nm then
          (n <- name_of_value P nm ;; pc <- coordA p ;; add_identifier P n pc ;;; register_params r)
        else register_params r
      | None => register_params r
      end
  end.

Definition prec_of (k: kind) : option nat :=
  (fix go (l: list (kind * nat)) : option nat :=
     match l with [] => None | (k', p) :: r => if kind_eqb k k' then Some p else go r end) tbl_BINARY_PRECEDENCE.

Definition s_int := s2l "int".
Definition opt_or_empty_typedecl (d: option node) : node :=
  match d with Some n => if truthy P n then n else empty_TypeDecl P | None => empty_TypeDecl P end.

Definition stmt_to_items (item: node) : list node :=
  match item with
  | VList l => l            (* (item == [None] never happens: lists come from _parse_static_assert / declarations) *)
  | _ => [item]
  end.

(* state of the specifier loops *)
Record specst := mkSS { ss_spec : option dspec; ss_saw_type : bool; ss_saw_align : bool; ss_first : option coord }.

Definition set_first (st: specst) (c: coord) : specst :=
  match ss_first st with Some _ => st | None => mkSS (ss_spec st) (ss_saw_type st) (ss_saw_align st) (Some c) end.

Fixpoint
(* ================= expressions ================= *)
p_expression (fuel: nat) : M node :=
  match fuel with O => oof | S f =>
    e <- p_assignment_expression f ;;
    c <- accept K_COMMA ;;
    match c with
    | None => ret e
    | Some _ =>
      e2 <- p_assignment_expression f ;;
      rest <- p_comma_exprs f ;;
      ec <- coordA e ;;
      ret (mkN C_ExprList [VList (e :: e2 :: rest)] ec)
    end
  end
with p_comma_exprs (fuel: nat) : M (list node) :=      (* while accept(COMMA): append(assignment_expression) *)
  match fuel with O => oof | S f =>
    c <- accept K_COMMA ;;
    match c with
    | None => ret []
    | Some _ => e <- p_assignment_expression f ;; r <- p_comma_exprs f ;; ret (e :: r)
    end
  end
with p_assignment_expression (fuel: nat) : M node :=
  match fuel with O => oof | S f =>
    k1 <- peek_kind ;;
    stmt_expr <- (if okind_is k1 K_LPAREN then (k2 <- peek_kind_k 2 ;; ret (okind_is k2 K_LBRACE)) else ret false) ;;
    if stmt_expr then
      advance ;;; comp <- p_compound_statement f ;; expect K_RPAREN ;;; ret comp
    else
      e <- p_conditional_expression f ;;
      t <- peek ;;
      match t with
      | Some t' =>
        if kind_in (tk t') tbl_ASSIGNMENT_OPS then
          op <- advance ;;
          rhs <- p_assignment_expression f ;;
          ec <- coordA e ;;
          ret (mkN C_Assignment [VStr (tv op); e; rhs] ec)
        else ret e
      | None => ret e
      end
  end
with p_conditional_expression (fuel: nat) : M node :=
  match fuel with O => oof | S f =>
    lhs0 <- p_cast_expression f ;;
    e <- p_binary_climb f 0 lhs0 ;;
    q <- accept K_CONDOP ;;
    match q with
    | None => ret e
    | Some _ =>
      iftrue <- p_expression f ;;
      expect K_COLON ;;;
      iffalse <- p_conditional_expression f ;;
      ec <- coordA e ;;
      ret (mkN C_TernaryOp [e; iftrue; iffalse] ec)
    end
  end
with p_binary_climb (fuel: nat) (min_prec: nat) (lhs: node) : M node :=   (* outer loop of _parse_binary_expression *)
  match fuel with O => oof | S f =>
    t <- peek ;;
    match t with
    | None => ret lhs
    | Some t' =>
      match prec_of (tk t') with
      | None => ret lhs
      | Some prec =>
        if Nat.ltb prec min_prec then ret lhs
        else
          advance ;;;
          rhs0 <- p_cast_expression f ;;
          rhs <- p_binary_inner f prec rhs0 ;;
          lc <- coordA lhs ;;
          p_binary_climb f min_prec (mkN C_BinaryOp [VStr (tv t'); lhs; rhs] lc)
      end
    end
  end
with p_binary_inner (fuel: nat) (prec: nat) (rhs: node) : M node :=        (* inner loop *)
  match fuel with O => oof | S f =>
    t <- peek ;;
    match t with
    | None => ret rhs
    | Some t' =>
      match prec_of (tk t') with
      | None => ret rhs
      | Some next_prec =>
        if Nat.ltb prec next_prec then
          rhs' <- p_binary_climb f next_prec rhs ;;
          p_binary_inner f prec rhs'
        else ret rhs
      end
    end
  end
with try_paren_type_name (fuel: nat) : M (option (node * nat * tok)) :=
  match fuel with O => oof | S f =>
    mk <- mark P ;;
    lp <- accept K_LPAREN ;;
    match lp with
    | None => ret None
    | Some lpt =>
      sd <- starts_declaration P ;;
      if negb sd then (reset P mk ;;; ret None)
      else
        typ <- p_type_name f ;;
        rp <- accept K_RPAREN ;;
        match rp with
        | None => reset P mk ;;; ret None
        | Some _ => ret (Some (typ, mk, lpt))
        end
    end
  end
with p_cast_expression (fuel: nat) : M node :=
  match fuel with O => oof | S f =>
    r <- try_paren_type_name f ;;
    match r with
    | Some (typ, mk, lpt) =>
      k <- peek_kind ;;
      if okind_is k K_LBRACE then (reset P mk ;;; p_unary_expression f)
      else
        e <- p_cast_expression f ;;
        c <- tcoord lpt ;;
        ret (mkN C_Cast [typ; e] c)
    | None => p_unary_expression f
    end
  end
with p_unary_expression (fuel: nat) : M node :=
  match fuel with O => oof | S f =>
    k <- peek_kind ;;
    if okind_is k K_PLUSPLUS || okind_is k K_MINUSMINUS then
      t <- advance ;; e <- p_unary_expression f ;; ec <- coordA e ;;
      ret (mkN C_UnaryOp [VStr (tv t); e] ec)
    else if okind_in k [K_AND; K_TIMES; K_PLUS; K_MINUS; K_NOT; K_LNOT] then
      t <- advance ;; e <- p_cast_expression f ;; ec <- coordA e ;;
      ret (mkN C_UnaryOp [VStr (tv t); e] ec)
    else if okind_is k K_SIZEOF then
      t <- advance ;;
      r <- try_paren_type_name f ;;
      match r with
      | Some (typ, _, _) => c <- tcoord t ;; ret (mkN C_UnaryOp [VStr (tv t); typ] c)
      | None => e <- p_unary_expression f ;; c <- tcoord t ;; ret (mkN C_UnaryOp [VStr (tv t); e] c)
      end
    else if okind_is k K_uALIGNOF then
      t <- advance ;;
      expect K_LPAREN ;;;
      typ <- p_type_name f ;;
      expect K_RPAREN ;;;
      c <- tcoord t ;;
      ret (mkN C_UnaryOp [VStr (tv t); typ] c)
    else p_postfix_expression f
  end
with p_postfix_expression (fuel: nat) : M node :=
  match fuel with O => oof | S f =>
    r <- try_paren_type_name f ;;
    complit <- (match r with
                | Some (typ, mk, lpt) =>
                  lb <- accept K_LBRACE ;;
                  match lb with
                  | Some _ =>
                    init <- p_initializer_list f ;;
                    accept K_COMMA ;;;
                    expect K_RBRACE ;;;
                    c <- tcoord lpt ;;
                    ret (Some (mkN C_CompoundLiteral [typ; init] c))
                  | None => reset P mk ;;; ret None
                  end
                | None => ret None
                end) ;;
    match complit with
    | Some cl => ret cl
    | None => e <- p_primary_expression f ;; p_postfix_suffixes f e
    end
  end
with p_postfix_suffixes (fuel: nat) (e: node) : M node :=
  match fuel with O => oof | S f =>
    lb <- accept K_LBRACKET ;;
    match lb with
    | Some _ =>
      sub <- p_expression f ;; expect K_RBRACKET ;;; ec <- coordA e ;;
      p_postfix_suffixes f (mkN C_ArrayRef [e; sub] ec)
    | None =>
      lp <- accept K_LPAREN ;;
      match lp with
      | Some _ =>
        k <- peek_kind ;;
        args <- (if okind_is k K_RPAREN then (advance ;;; ret VNone)
                 else (a <- p_argument_expression_list f ;; expect K_RPAREN ;;; ret a)) ;;
        ec <- coordA e ;;
        p_postfix_suffixes f (mkN C_FuncCall [e; args] ec)
      | None =>
        k <- peek_kind ;;
        if okind_is k K_PERIOD || okind_is k K_ARROW then
          op <- advance ;;
          nt <- advance ;;
          nc <- tok_coord nt ;;
          if negb (kind_eqb (tk nt) K_ID || kind_eqb (tk nt) K_TYPEID) then fail (L_coord P nc) (s2l "Invalid struct reference")
          else
            ec <- coordA e ;;
            p_postfix_suffixes f (mkN C_StructRef [e; VStr (tv op); mkN C_ID [VStr (tv nt)] (Some nc)] ec)
        else if okind_is k K_PLUSPLUS || okind_is k K_MINUSMINUS then
          t <- advance ;; ec <- coordA e ;;
          p_postfix_suffixes f (mkN C_UnaryOp [VStr (112 :: tv t); e] ec)
        else ret e
      end
    end
  end
with p_primary_expression (fuel: nat) : M node :=
  match fuel with O => oof | S f =>
    k <- peek_kind ;;
    if okind_is k K_ID then p_identifier
    else if okind_in k tbl_INT_CONST || okind_in k tbl_FLOAT_CONST || okind_in k tbl_CHAR_CONST then p_constant
    else if okind_in k tbl_STRING_LITERAL then p_unified_string_literal f
    else if okind_in k tbl_WSTR_LITERAL then p_unified_wstring_literal f
    else if okind_is k K_LPAREN then
      advance ;;; e <- p_expression f ;; expect K_RPAREN ;;; ret e
    else if okind_is k K_OFFSETOF then
      ot <- advance ;;
      expect K_LPAREN ;;;
      typ <- p_type_name f ;;
      expect K_COMMA ;;;
      des <- p_offsetof_member_designator f ;;
      expect K_RPAREN ;;;
      c <- tcoord ot ;;
      ret (mkN C_FuncCall [mkN C_ID [VStr (tv ot)] c; mkN C_ExprList [VList [typ; des]] c] c)
    else fl <- cur_file P ;; fail (L_file P fl) (s2l "Invalid expression")
  end
with p_offsetof_member_designator (fuel: nat) : M node :=
  match fuel with O => oof | S f =>
    n <- p_identifier_or_typeid ;; p_offsetof_suffixes f n
  end
with p_offsetof_suffixes (fuel: nat) (n: node) : M node :=
  match fuel with O => oof | S f =>
    pd <- accept K_PERIOD ;;
    match pd with
    | Some _ => fld <- p_identifier_or_typeid ;; nc <- coordA n ;;
                p_offsetof_suffixes f (mkN C_StructRef [n; VStr [46]; fld] nc)
    | None =>
      lb <- accept K_LBRACKET ;;
      match lb with
      | Some _ => e <- p_expression f ;; expect K_RBRACKET ;;; nc <- coordA n ;;
                  p_offsetof_suffixes f (mkN C_ArrayRef [n; e] nc)
      | None => ret n
      end
    end
  end
with p_argument_expression_list (fuel: nat) : M node :=
  match fuel with O => oof | S f =>
    e <- p_assignment_expression f ;;
    rest <- p_comma_exprs f ;;
    ec <- coordA e ;;
    ret (mkN C_ExprList [VList (e :: rest)] ec)
  end
(* ================= type names, specifiers ================= *)
with p_type_name (fuel: nat) : M node :=
  match fuel with O => oof | S f =>
    spec <- p_specifier_qualifier_list f ;;
    decl <- p_abstract_declarator_opt f ;;
    co <- (match decl with
           | Some d => coordA d
           | None => match s_type P spec with
                     | t0 :: _ => coordA t0
                     | [] => match s_alignment P spec with a0 :: _ => coordA a0 | [] => ret None end
                     end
           end) ;;
    let tn := mkN C_Typename [VStr []; vstrs P (s_qual P spec); VNone; opt_or_empty_typedecl decl] co in
    fixed <- fix_decl_name_type P (WF) tn (s_type P spec) ;;
    fix_atomic_specifiers P (WF) fixed
  end
with p_spec_loop (fuel: nat) (decl_mode: bool) (st: specst) : M specst :=
  (* common loop of _parse_declaration_specifiers (decl_mode) and _parse_specifier_qualifier_list *)
  match fuel with O => oof | S f =>
    t <- peek ;;
    match t with
    | None => ret st
    | Some t' =>
      let k := tk t' in
      if kind_eqb k K_uALIGNAS then
        tc <- tok_coord t' ;;
        a <- p_alignment_specifier f ;;
        let st1 := set_first st tc in
        p_spec_loop f decl_mode (mkSS (add_alignment P (ss_spec st1) a) (ss_saw_type st1) true (ss_first st1))
      else
      is_atomic_spec <- (if kind_eqb k K_uATOMIC then (k2 <- peek_kind_k 2 ;; ret (okind_is k2 K_LPAREN)) else ret false) ;;
      tc <- tok_coord t' ;;      (* first_coord is taken after the peek(2) of the _Atomic test *)
      if is_atomic_spec then
        a <- p_atomic_specifier f ;;
        let st1 := set_first st tc in
        p_spec_loop f decl_mode (mkSS (add_type P (ss_spec st1) a) true (ss_saw_align st1) (ss_first st1))
      else if kind_in k tbl_TYPE_QUALIFIER then
        tq <- advance ;;
        let st1 := set_first st tc in
        p_spec_loop f decl_mode (mkSS (add_qual P (ss_spec st1) (tv tq)) (ss_saw_type st1) (ss_saw_align st1) (ss_first st1))
      else if decl_mode && kind_in k tbl_STORAGE_CLASS then
        tq <- advance ;;
        let st1 := set_first st tc in
        p_spec_loop f decl_mode (mkSS (add_storage P (ss_spec st1) (tv tq)) (ss_saw_type st1) (ss_saw_align st1) (ss_first st1))
      else if decl_mode && kind_in k tbl_FUNCTION_SPEC then
        tq <- advance ;;
        let st1 := set_first st tc in
        p_spec_loop f decl_mode (mkSS (add_function P (ss_spec st1) (tv tq)) (ss_saw_type st1) (ss_saw_align st1) (ss_first st1))
      else if kind_in k tbl_TYPE_SPEC_SIMPLE then
        tq <- advance ;;
        c2 <- tcoord tq ;;
        let st1 := set_first st tc in
        p_spec_loop f decl_mode (mkSS (add_type P (ss_spec st1) (mkIdType P [tv tq] c2)) true (ss_saw_align st1) (ss_first st1))
      else if kind_eqb k K_TYPEID then
        if ss_saw_type st then ret st
        else
          tq <- advance ;;
          c2 <- tcoord tq ;;
          let st1 := set_first st tc in
          p_spec_loop f decl_mode (mkSS (add_type P (ss_spec st1) (mkIdType P [tv tq] c2)) true (ss_saw_align st1) (ss_first st1))
      else if kind_eqb k K_STRUCT || kind_eqb k K_UNION then
        a <- p_struct_or_union_specifier f ;;
        let st1 := set_first st tc in
        p_spec_loop f decl_mode (mkSS (add_type P (ss_spec st1) a) true (ss_saw_align st1) (ss_first st1))
      else if kind_eqb k K_ENUM then
        a <- p_enum_specifier f ;;
        let st1 := set_first st tc in
        p_spec_loop f decl_mode (mkSS (add_type P (ss_spec st1) a) true (ss_saw_align st1) (ss_first st1))
      else ret st
    end
  end
with p_declaration_specifiers (fuel: nat) (allow_no_type: bool) : M (dspec * bool * option coord) :=
  match fuel with O => oof | S f =>
    st <- p_spec_loop f true (mkSS None false false None) ;;
    match ss_spec st with
    | None => fl <- cur_file P ;; fail (L_file P fl) (s2l "Invalid declaration")
    | Some spec =>
      if negb (ss_saw_type st) && negb allow_no_type then fail (loc_of P (ss_first st)) (s2l "Missing type in declaration")
      else ret (spec, ss_saw_type st, ss_first st)
    end
  end
with p_specifier_qualifier_list (fuel: nat) : M dspec :=
  match fuel with O => oof | S f =>
    st <- p_spec_loop f false (mkSS None false false None) ;;
    match ss_spec st with
    | None => fl <- cur_file P ;; fail (L_file P fl) (s2l "Invalid specifier list")
    | Some spec =>
      if negb (ss_saw_type st) && negb (ss_saw_align st) then fail (loc_of P (ss_first st)) (s2l "Missing type in declaration")
      else ret spec
    end
  end
with p_alignment_specifier (fuel: nat) : M node :=
  match fuel with O => oof | S f =>
    t <- expect K_uALIGNAS ;;
    expect K_LPAREN ;;;
    sd <- starts_declaration P ;;
    if sd then
      typ <- p_type_name f ;; expect K_RPAREN ;;; c <- tcoord t ;; ret (mkN C_Alignas [typ] c)
    else
      e <- p_conditional_expression f ;; expect K_RPAREN ;;; c <- tcoord t ;; ret (mkN C_Alignas [e] c)
  end
with p_atomic_specifier (fuel: nat) : M node :=
  match fuel with O => oof | S f =>
    atok <- expect K_uATOMIC ;;
    expect K_LPAREN ;;;
    typ <- p_type_name f ;;
    expect K_RPAREN ;;;
    ty <- getA P a_type typ ;;
    (if is_cls P C_ArrayDecl ty || is_cls P C_FuncDecl ty
     then (c <- tok_coord atok ;; fail (L_coord P c) (s2l "Invalid _Atomic specifier: array or function type"))
     else ret tt) ;;;
    q <- getA P a_quals typ ;;
    q' <- lift_opt P CK_Attribute (vlist_append P (VStr s_Atomic) q) ;;
    setA P a_quals q' typ
  end
with p_struct_or_union_specifier (fuel: nat) : M node :=
  match fuel with O => oof | S f =>
    t <- advance ;;
    let klass := if str_eqb (tv t) (s2l "struct") then C_Struct else C_Union in
    k <- peek_kind ;;
    if okind_is k K_ID || okind_is k K_TYPEID then
      nt <- advance ;;
      k2 <- peek_kind ;;
      if okind_is k2 K_LBRACE then
        advance ;;;
        rb <- accept K_RBRACE ;;
        match rb with
        | Some _ => c <- tcoord nt ;; ret (mkN klass [VStr (tv nt); VList []] c)
        | None =>
          decls <- p_struct_declaration_list f ;;
          expect K_RBRACE ;;;
          c <- tcoord nt ;; ret (mkN klass [VStr (tv nt); VList decls] c)
        end
      else c <- tcoord nt ;; ret (mkN klass [VStr (tv nt); VNone] c)
    else if okind_is k K_LBRACE then
      bt <- advance ;;
      rb <- accept K_RBRACE ;;
      match rb with
      | Some _ => c <- tcoord bt ;; ret (mkN klass [VNone; VList []] c)
      | None =>
        decls <- p_struct_declaration_list f ;;
        expect K_RBRACE ;;;
        c <- tcoord bt ;; ret (mkN klass [VNone; VList decls] c)
      end
    else c <- tok_coord t ;; fail (L_coord P c) (s2l "Invalid struct/union declaration")
  end
with p_struct_declaration_list (fuel: nat) : M (list node) :=
  match fuel with O => oof | S f =>
    k <- peek_kind ;;
    match k with
    | None => ret []
    | Some k' =>
      if kind_eqb k' K_RBRACE then ret []
      else
        items <- p_struct_declaration f ;;
        rest <- p_struct_declaration_list f ;;
        ret (match items with Some l => l ++ rest | None => rest end)
    end
  end
with p_struct_declaration (fuel: nat) : M (option (list node)) :=
  match fuel with O => oof | S f =>
    k <- peek_kind ;;
    if okind_is k K_SEMI then (advance ;;; ret None)
    else if okind_is k K_PPPRAGMA || okind_is k K_uPRAGMA then (p <- p_pppragma_directive f ;; ret (Some [p]))
    else
      spec <- p_specifier_qualifier_list f ;;
      sd <- starts_declarator P false ;;
      k2 <- peek_kind ;;
      decls <- (if sd || okind_is k2 K_COLON then (l <- p_struct_declarator_list f ;; ret (Some l)) else ret None) ;;
      match decls with
      | Some l =>
        expect K_SEMI ;;;
        r <- build_declarations P spec l false ;; ret (Some r)
      | None =>
        match (match s_type P spec with [nd] => if is_cls P C_Typename nd then None else Some nd | _ => None end) with
        | Some nd =>
          expect K_SEMI ;;;
          r <- build_declarations P spec [mkDI P (Some nd) VNone VNone] false ;; ret (Some r)
        | None =>
          expect K_SEMI ;;;
          r <- build_declarations P spec [mkDI P None VNone VNone] false ;; ret (Some r)
        end
      end
  end
with p_struct_declarator_list (fuel: nat) : M (list dinfo) :=
  match fuel with O => oof | S f =>
    d <- p_struct_declarator f ;;
    c <- accept K_COMMA ;;
    match c with
    | Some _ => r <- p_struct_declarator_list f ;; ret (d :: r)
    | None => ret [d]
    end
  end
with p_struct_declarator (fuel: nat) : M dinfo :=
  match fuel with O => oof | S f =>
    c <- accept K_COLON ;;
    match c with
    | Some ct => bs <- p_conditional_expression f ;; cc <- tcoord ct ;;
                 ret (mkDI P (Some (mkTypeDecl P VNone VNone VNone VNone cc)) VNone bs)
    | None =>
      d <- p_declarator f ;;
      c2 <- accept K_COLON ;;
      match c2 with
      | Some _ => bs <- p_conditional_expression f ;; ret (mkDI P (Some d) VNone bs)
      | None => ret (mkDI P (Some d) VNone VNone)
      end
    end
  end
with p_enum_specifier (fuel: nat) : M node :=
  match fuel with O => oof | S f =>
    t <- expect K_ENUM ;;
    k <- peek_kind ;;
    if okind_is k K_ID || okind_is k K_TYPEID then
      nt <- advance ;;
      k2 <- peek_kind ;;
      if okind_is k2 K_LBRACE then
        advance ;;;
        enums <- p_enumerator_list f ;;
        expect K_RBRACE ;;;
        c <- tcoord t ;; ret (mkN C_Enum [VStr (tv nt); enums] c)
      else c <- tcoord t ;; ret (mkN C_Enum [VStr (tv nt); VNone] c)
    else
      expect K_LBRACE ;;;
      enums <- p_enumerator_list f ;;
      expect K_RBRACE ;;;
      c <- tcoord t ;; ret (mkN C_Enum [VNone; enums] c)
  end
with p_enumerator_list (fuel: nat) : M node :=
  match fuel with O => oof | S f =>
    e <- p_enumerator f ;;
    ec <- coordA e ;;
    rest <- p_enumerators_more f ;;
    ret (mkN C_EnumeratorList [VList (e :: rest)] ec)
  end
with p_enumerators_more (fuel: nat) : M (list node) :=
  match fuel with O => oof | S f =>
    c <- accept K_COMMA ;;
    match c with
    | None => ret []
    | Some _ =>
      k <- peek_kind ;;
      if okind_is k K_RBRACE then ret []
      else e <- p_enumerator f ;; r <- p_enumerators_more f ;; ret (e :: r)
    end
  end
with p_enumerator (fuel: nat) : M node :=
  match fuel with O => oof | S f =>
    nt <- expect K_ID ;;
    eq <- accept K_EQUALS ;;
    v <- (match eq with Some _ => p_conditional_expression f | None => ret VNone end) ;;
    c <- tcoord nt ;;
    add_identifier P (Some (tv nt)) c ;;;
    ret (mkN C_Enumerator [VStr (tv nt); v] c)
  end
(* ================= declarators ================= *)
with p_declarator (fuel: nat) : M node :=
  match fuel with O => oof | S f =>
    r <- p_any_declarator f false false ;;
    match fst r with Some d => ret d | None => crash CK_Assertion end
  end
with p_any_declarator (fuel: nat) (allow_abstract typeid_paren_as_abstract: bool) : M (option node * bool) :=
  match fuel with O => oof | S f =>
    info <- peek_declarator_name_info f ;;
    let name_type := fst info in
    let saw_paren := snd info in
    let abstract := match name_type with
                    | None => true
                    | Some k => typeid_paren_as_abstract && kind_eqb k K_TYPEID && saw_paren
                    end in
    if abstract then
      if negb allow_abstract then
        t <- peek ;;
        match t with
        | Some t' => c <- tok_coord t' ;; fail (L_coord P c) (s2l "Invalid declarator")
        | None => fl <- cur_file P ;; fail (L_file P fl) (s2l "Invalid declarator")
        end
      else d <- p_abstract_declarator_opt f ;; ret (d, false)
    else
      if okind_is name_type K_TYPEID then
        d <- p_declarator_kind f false (negb typeid_paren_as_abstract) ;; ret (Some d, true)
      else d <- p_declarator_kind f true true ;; ret (Some d, true)
  end
with p_declarator_kind (fuel: nat) (kind_id: bool) (allow_paren: bool) : M node :=
  match fuel with O => oof | S f =>
    k <- peek_kind ;;
    ptr <- (if okind_is k K_TIMES then p_pointer f else ret None) ;;
    direct <- p_direct_declarator f kind_id allow_paren ;;
    match ptr with
    | Some p => type_modify_decl P (WF) direct p
    | None => ret direct
    end
  end
with p_direct_declarator (fuel: nat) (kind_id: bool) (allow_paren: bool) : M node :=
  match fuel with O => oof | S f =>
    lp <- (if allow_paren then accept K_LPAREN else ret None) ;;
    decl <- (match lp with
             | Some _ => d <- p_declarator_kind f kind_id true ;; expect K_RPAREN ;;; ret d
             | None =>
               nt <- expect (if kind_id then K_ID else K_TYPEID) ;;
               c <- tcoord nt ;;
               ret (mkTypeDecl P (VStr (tv nt)) VNone VNone VNone c)
             end) ;;
    p_decl_suffixes f decl
  end
with p_decl_suffixes (fuel: nat) (decl: node) : M node :=
  match fuel with O => oof | S f =>
    k <- peek_kind ;;
    if okind_is k K_LBRACKET then
      dc <- coordA decl ;;
      arr <- p_array_decl_common f VNone dc ;;
      d' <- type_modify_decl P (WF) decl arr ;;
      p_decl_suffixes f d'
    else if okind_is k K_LPAREN then
      fn <- p_function_decl f decl ;;
      d' <- type_modify_decl P (WF) decl fn ;;
      p_decl_suffixes f d'
    else ret decl
  end
with p_array_decl_common (fuel: nat) (base_type: node) (co: option coord) : M node :=
  (* co = None: use the '[' token's coordinate (`if coord is None`) *)
  match fuel with O => oof | S f =>
    lb <- expect K_LBRACKET ;;
    c <- (match co with Some c => ret (Some c) | None => tcoord lb end) ;;
    let mk (dim: node) (dq: list str) : node := mkN C_ArrayDecl [base_type; dim; vstrs P dq] c in
    st <- accept K_STATIC ;;
    match st with
    | Some _ =>
      q <- p_type_qualifier_list f ;;
      dim <- p_assignment_expression f ;;
      expect K_RBRACKET ;;;
      ret (mk dim (s2l "static" :: q))
    | None =>
      k <- peek_kind ;;
      if okind_in k tbl_TYPE_QUALIFIER then
        q <- p_type_qualifier_list f ;;
        st2 <- accept K_STATIC ;;
        match st2 with
        | Some _ =>
          dim <- p_assignment_expression f ;;
          expect K_RBRACKET ;;;
          ret (mk dim (q ++ [s2l "static"]))
        | None =>
          k1 <- peek_kind ;;
          vla <- (if okind_is k1 K_TIMES then (k2 <- peek_kind_k 2 ;; ret (okind_is k2 K_RBRACKET)) else ret false) ;;
          if vla then
            tm <- advance ;;
            expect K_RBRACKET ;;;
            tc <- tcoord tm ;;
            ret (mk (mkN C_ID [VStr (tv tm)] tc) q)
          else
            se <- starts_expression P ;;
            dim <- (if se then p_assignment_expression f else ret VNone) ;;
            expect K_RBRACKET ;;;
            ret (mk dim q)
        end
      else
        k1 <- peek_kind ;;
        vla <- (if okind_is k1 K_TIMES then (k2 <- peek_kind_k 2 ;; ret (okind_is k2 K_RBRACKET)) else ret false) ;;
        if vla then
          tm <- advance ;;
          expect K_RBRACKET ;;;
          tc <- tcoord tm ;;
          ret (mk (mkN C_ID [VStr (tv tm)] tc) [])
        else
          se <- starts_expression P ;;
          dim <- (if se then p_assignment_expression f else ret VNone) ;;
          expect K_RBRACKET ;;;
          ret (mk dim [])
    end
  end
with p_function_decl (fuel: nat) (base_decl: node) : M node :=
  match fuel with O => oof | S f =>
    expect K_LPAREN ;;;
    rp <- accept K_RPAREN ;;
    args <- (match rp with
             | Some _ => ret VNone
             | None =>
               sd <- starts_declaration P ;;
               a <- (if sd then p_parameter_type_list f
                     else (k <- peek_kind ;; if okind_is k K_RPAREN then ret VNone else p_identifier_list f)) ;;
               expect K_RPAREN ;;;
               ret a
             end) ;;
    bc <- coordA base_decl ;;
    let func := mkN C_FuncDecl [args; VNone] bc in
    k <- peek_kind ;;
    (if okind_is k K_LBRACE then
       match args with
       | VNone => ret tt
       | _ =>
         ps <- getA P a_params args ;;
         match ps with
         | VList l => register_params l
         | _ => crash CK_Type
         end
       end
     else ret tt) ;;;
    ret func
  end
with p_parameter_type_list (fuel: nat) : M node :=
  match fuel with O => oof | S f =>
    first <- p_parameter_declaration f ;;
    fc <- coordA first ;;
    rest <- p_parameters_more f ;;
    k <- peek_kind ;;
    ell <- (if okind_is k K_COMMA then
              (k2 <- peek_kind_k 2 ;;
               if okind_is k2 K_ELLIPSIS then
                 (advance ;;; et <- advance ;; c <- tcoord et ;; ret [mkN C_EllipsisParam [] c])
               else ret [])
            else ret []) ;;
    ret (mkN C_ParamList [VList (first :: rest ++ ell)] fc)
  end
with p_parameters_more (fuel: nat) : M (list node) :=
  match fuel with O => oof | S f =>
    k <- peek_kind ;;
    if okind_is k K_COMMA then
      k2 <- peek_kind_k 2 ;;
      if okind_is k2 K_ELLIPSIS then ret []
      else (advance ;;; p <- p_parameter_declaration f ;; r <- p_parameters_more f ;; ret (p :: r))
    else ret []
  end
with p_parameter_declaration (fuel: nat) : M node :=
  match fuel with O => oof | S f =>
    r <- p_declaration_specifiers f true ;;
    let '(spec0, _, spec_coord) := r in
    let spec := match s_type P spec0 with
                | [] => with_type P spec0 [mkIdType P [s_int] spec_coord]
                | _ => spec0 end in
    sd <- starts_declarator P false ;;
    if sd then
      d <- p_any_declarator f true true ;;
      if snd d then
        ds <- build_declarations P spec [mkDI P (fst d) VNone VNone] false ;;
        match ds with x :: _ => ret x | [] => crash CK_Index end
      else p_build_parameter_declaration f spec (fst d) spec_coord
    else
      d <- p_abstract_declarator_opt f ;;
      p_build_parameter_declaration f spec d spec_coord
  end
with p_build_parameter_declaration (fuel: nat) (spec: dspec) (decl: option node) (spec_coord: option coord) : M node :=
  match fuel with O => oof | S f =>
    let ty := s_type P spec in
    redecl <- (if Nat.ltb 1 (length ty) && match last_opt ty with Some t => is_cls P C_IdentifierType t | None => false end then
                 ns <- last_type_names P ty ;;
                 if Nat.eqb (length ns) 1 then (n0 <- first_name P ns ;; is_type_in_scope P n0) else ret false
               else ret false) ;;
    if redecl then
      ds <- build_declarations P spec [mkDI P decl VNone VNone] false ;;
      match ds with x :: _ => ret x | [] => crash CK_Index end
    else
      let tn := mkN C_Typename [VStr []; vstrs P (s_qual P spec); VNone; opt_or_empty_typedecl decl] spec_coord in
      fixed <- fix_decl_name_type P (WF) tn ty ;;
      fix_atomic_specifiers P (WF) fixed
  end
with p_identifier_list (fuel: nat) : M node :=
  match fuel with O => oof | S f =>
    first <- p_identifier ;;
    fc <- coordA first ;;
    rest <- p_identifiers_more f ;;
    ret (mkN C_ParamList [VList (first :: rest)] fc)
  end
with p_identifiers_more (fuel: nat) : M (list node) :=
  match fuel with O => oof | S f =>
    c <- accept K_COMMA ;;
    match c with
    | Some _ => i <- p_identifier ;; r <- p_identifiers_more f ;; ret (i :: r)
    | None => ret []
    end
  end
with p_abstract_declarator_opt (fuel: nat) : M (option node) :=
  match fuel with O => oof | S f =>
    k <- peek_kind ;;
    if okind_is k K_TIMES then
      ptr <- p_pointer f ;;
      k2 <- peek_kind ;;
      decl <- (if okind_is k2 K_LPAREN || okind_is k2 K_LBRACKET then p_direct_abstract_declarator f
               else ret (empty_TypeDecl P)) ;;
      match ptr with
      | Some p => d <- type_modify_decl P (WF) decl p ;; ret (Some d)
      | None => crash CK_Assertion
      end
    else if okind_is k K_LPAREN || okind_is k K_LBRACKET then
      d <- p_direct_abstract_declarator f ;; ret (Some d)
    else ret None
  end
with p_direct_abstract_declarator (fuel: nat) : M node :=
  match fuel with O => oof | S f =>
    lp <- accept K_LPAREN ;;
    decl <- (match lp with
             | Some lpt =>
               sd <- starts_declaration P ;;
               k <- peek_kind ;;
               if sd || okind_is k K_RPAREN then
                 params <- (if okind_is k K_RPAREN then ret VNone else p_parameter_type_list f) ;;
                 expect K_RPAREN ;;;
                 c <- tcoord lpt ;;
                 ret (mkN C_FuncDecl [params; empty_TypeDecl P] c)
               else
                 d <- p_abstract_declarator_opt f ;;
                 expect K_RPAREN ;;;
                 match d with Some d' => ret d' | None => crash CK_Assertion end
             | None =>
               k <- peek_kind ;;
               if okind_is k K_LBRACKET then p_array_decl_common f (empty_TypeDecl P) None
               else fl <- cur_file P ;; fail (L_file P fl) (s2l "Invalid abstract declarator")
             end) ;;
    p_decl_suffixes f decl
  end
(* ================= declarations, initializers ================= *)
with p_declaration (fuel: nat) : M (list node) :=
  match fuel with O => oof | S f =>
    r <- p_declaration_specifiers f true ;;
    let '(spec, saw_type, _) := r in
    ds <- p_decl_body_with_spec f spec saw_type ;;
    expect K_SEMI ;;;
    ret ds
  end
with p_decl_body_with_spec (fuel: nat) (spec: dspec) (saw_type: bool) : M (list node) :=
  match fuel with O => oof | S f =>
    sd <- starts_declarator P (negb saw_type) ;;
    infos <- (if sd then (l <- p_init_declarator_list f None (negb saw_type) ;; ret (Some l)) else ret None) ;;
    match infos with
    | None =>
      match s_type P spec with
      | [t0] =>
        if is_cls P C_Struct t0 || is_cls P C_Union t0 || is_cls P C_Enum t0 then
          tc <- coordA t0 ;;
          ret [mkN C_Decl [VNone; quals_value P spec; VList (s_alignment P spec); vstrs P (s_storage P spec);
                           vstrs P (s_function P spec); t0; VNone; VNone] tc]
        else build_declarations P spec [mkDI P None VNone VNone] true
      | _ => build_declarations P spec [mkDI P None VNone VNone] true
      end
    | Some l => build_declarations P spec l true
    end
  end
with p_declaration_list (fuel: nat) : M (list node) :=
  match fuel with O => oof | S f =>
    sd <- starts_declaration P ;;
    if sd then (d <- p_declaration f ;; r <- p_declaration_list f ;; ret (d ++ r)) else ret []
  end
with p_init_declarator_list (fuel: nat) (first: option dinfo) (id_only: bool) : M (list dinfo) :=
  match fuel with O => oof | S f =>
    d0 <- (match first with Some d => ret d | None => p_init_declarator f id_only end) ;;
    rest <- p_init_declarators_more f id_only ;;
    ret (d0 :: rest)
  end
with p_init_declarators_more (fuel: nat) (id_only: bool) : M (list dinfo) :=
  match fuel with O => oof | S f =>
    c <- accept K_COMMA ;;
    match c with
    | Some _ => d <- p_init_declarator f id_only ;; r <- p_init_declarators_more f id_only ;; ret (d :: r)
    | None => ret []
    end
  end
with p_init_declarator (fuel: nat) (id_only: bool) : M dinfo :=
  match fuel with O => oof | S f =>
    d <- (if id_only then p_declarator_kind f true true else p_declarator f) ;;
    eq <- accept K_EQUALS ;;
    init <- (match eq with Some _ => p_initializer f | None => ret VNone end) ;;
    ret (mkDI P (Some d) init VNone)
  end
with p_initializer (fuel: nat) : M node :=
  match fuel with O => oof | S f =>
    lb <- accept K_LBRACE ;;
    match lb with
    | Some lbt =>
      rb <- accept K_RBRACE ;;
      match rb with
      | Some _ => c <- tcoord lbt ;; ret (mkN C_InitList [VList []] c)
      | None =>
        il <- p_initializer_list f ;;
        accept K_COMMA ;;;
        expect K_RBRACE ;;;
        ret il
      end
    | None => p_assignment_expression f
    end
  end
with p_initializer_list (fuel: nat) : M node :=
  match fuel with O => oof | S f =>
    i0 <- p_initializer_item f ;;
    rest <- p_initializer_items_more f ;;
    c0 <- coordA i0 ;;
    ret (mkN C_InitList [VList (i0 :: rest)] c0)
  end
with p_initializer_items_more (fuel: nat) : M (list node) :=
  match fuel with O => oof | S f =>
    mk <- mark P ;;
    c <- accept K_COMMA ;;
    match c with
    | None => ret []
    | Some _ =>
      k <- peek_kind ;;
      if okind_is k K_RBRACE then ret []
      else i <- p_initializer_item f ;; r <- p_initializer_items_more f ;; ret (i :: r)
    end
  end
with p_initializer_item (fuel: nat) : M node :=
  match fuel with O => oof | S f =>
    k <- peek_kind ;;
    des <- (if okind_is k K_LBRACKET || okind_is k K_PERIOD then
              (d <- p_designator_list f ;; expect K_EQUALS ;;; ret (Some d))
            else ret None) ;;
    init <- p_initializer f ;;
    match des with
    | Some d => ret (mkN C_NamedInitializer [VList d; init] None)
    | None => ret init
    end
  end
with p_designator_list (fuel: nat) : M (list node) :=
  match fuel with O => oof | S f =>
    k <- peek_kind ;;
    if okind_is k K_LBRACKET then
      advance ;;; e <- p_conditional_expression f ;; expect K_RBRACKET ;;; r <- p_designator_list f ;; ret (e :: r)
    else if okind_is k K_PERIOD then
      advance ;;; i <- p_identifier_or_typeid ;; r <- p_designator_list f ;; ret (i :: r)
    else ret []
  end
(* ================= statements ================= *)
with p_statement (fuel: nat) : M node :=
  match fuel with O => oof | S f =>
    k <- peek_kind ;;
    if okind_is k K_CASE || okind_is k K_DEFAULT then p_labeled_statement f
    else
    is_label <- (if okind_is k K_ID then (k2 <- peek_kind_k 2 ;; ret (okind_is k2 K_COLON)) else ret false) ;;
    if is_label then p_labeled_statement f
    else if okind_is k K_LBRACE then p_compound_statement f
    else if okind_is k K_IF || okind_is k K_SWITCH then p_selection_statement f
    else if okind_is k K_WHILE || okind_is k K_DO || okind_is k K_FOR then p_iteration_statement f
    else if okind_in k [K_GOTO; K_BREAK; K_CONTINUE; K_RETURN] then p_jump_statement f
    else if okind_is k K_PPPRAGMA || okind_is k K_uPRAGMA then p_pppragma_directive f
    else if okind_is k K_uSTATIC_ASSERT then (l <- p_static_assert f ;; match l with x :: _ => ret x | [] => crash CK_Index end)
    else p_expression_statement f
  end
with p_pragmacomp_or_statement (fuel: nat) : M node :=
  match fuel with O => oof | S f =>
    k <- peek_kind ;;
    if okind_is k K_PPPRAGMA || okind_is k K_uPRAGMA then
      pragmas <- p_pppragma_directive_list f ;;
      stmt <- p_statement f ;;
      match pragmas with
      | p0 :: _ => pc <- coordA p0 ;; ret (mkN C_Compound [VList (pragmas ++ [stmt])] pc)
      | [] => crash CK_Index
      end
    else p_statement f
  end
with p_block_item_list (fuel: nat) : M (list node) :=
  match fuel with O => oof | S f =>
    k <- peek_kind ;;
    match k with
    | None => ret []
    | Some k' =>
      if kind_eqb k' K_RBRACE then ret []
      else
        sd <- starts_declaration P ;;
        items <- (if sd then p_declaration f else (s <- p_statement f ;; ret (stmt_to_items s))) ;;
        rest <- p_block_item_list f ;;
        ret (items ++ rest)
    end
  end
with p_compound_statement (fuel: nat) : M node :=
  match fuel with O => oof | S f =>
    lb <- expect K_LBRACE ;;
    rb <- accept K_RBRACE ;;
    match rb with
    | Some _ => c <- tcoord lb ;; ret (mkN C_Compound [VNone] c)
    | None =>
      items <- p_block_item_list f ;;
      expect K_RBRACE ;;;
      c <- tcoord lb ;;
      ret (mkN C_Compound [VList items] c)
    end
  end
with p_labeled_statement (fuel: nat) : M node :=
  match fuel with O => oof | S f =>
    k <- peek_kind ;;
    let body (t: tok) : M node :=
      ss <- starts_statement P ;;
      if ss then p_pragmacomp_or_statement f
      else c <- tcoord t ;; ret (mkN C_EmptyStatement [] c) in
    if okind_is k K_ID then
      nt <- advance ;;
      expect K_COLON ;;;
      stmt <- body nt ;;
      c <- tcoord nt ;;
      ret (mkN C_Label [VStr (tv nt); stmt] c)
    else if okind_is k K_CASE then
      ct <- advance ;;
      e <- p_conditional_expression f ;;
      expect K_COLON ;;;
      stmt <- body ct ;;
      c <- tcoord ct ;;
      ret (mkN C_Case [e; VList [stmt]] c)
    else if okind_is k K_DEFAULT then
      dt <- advance ;;
      expect K_COLON ;;;
      stmt <- body dt ;;
      c <- tcoord dt ;;
      ret (mkN C_Default [VList [stmt]] c)
    else fl <- cur_file P ;; fail (L_file P fl) (s2l "Invalid labeled statement")
  end
with p_selection_statement (fuel: nat) : M node :=
  match fuel with O => oof | S f =>
    t <- advance ;;
    if kind_eqb (tk t) K_IF then
      expect K_LPAREN ;;;
      cond <- p_expression f ;;
      expect K_RPAREN ;;;
      th <- p_pragmacomp_or_statement f ;;
      el <- accept K_ELSE ;;
      match el with
      | Some _ => es <- p_pragmacomp_or_statement f ;; c <- tcoord t ;; ret (mkN C_If [cond; th; es] c)
      | None => c <- tcoord t ;; ret (mkN C_If [cond; th; VNone] c)
      end
    else if kind_eqb (tk t) K_SWITCH then
      expect K_LPAREN ;;;
      e <- p_expression f ;;
      expect K_RPAREN ;;;
      st <- p_pragmacomp_or_statement f ;;
      c <- tcoord t ;;
      fix_switch_cases P (WF) (mkN C_Switch [e; st] c)
    else c <- tok_coord t ;; fail (L_coord P c) (s2l "Invalid selection statement")
  end
with p_iteration_statement (fuel: nat) : M node :=
  match fuel with O => oof | S f =>
    t <- advance ;;
    if kind_eqb (tk t) K_WHILE then
      expect K_LPAREN ;;;
      cond <- p_expression f ;;
      expect K_RPAREN ;;;
      st <- p_pragmacomp_or_statement f ;;
      c <- tcoord t ;;
      ret (mkN C_While [cond; st] c)
    else if kind_eqb (tk t) K_DO then
      st <- p_pragmacomp_or_statement f ;;
      expect K_WHILE ;;;
      expect K_LPAREN ;;;
      cond <- p_expression f ;;
      expect K_RPAREN ;;;
      expect K_SEMI ;;;
      c <- tcoord t ;;
      ret (mkN C_DoWhile [cond; st] c)
    else if kind_eqb (tk t) K_FOR then
      expect K_LPAREN ;;;
      sd <- starts_declaration P ;;
      if sd then
        decls <- p_declaration f ;;
        ic <- tcoord t ;;
        let init := mkN C_DeclList [VList decls] ic in
        cond <- p_expression_opt f ;;
        expect K_SEMI ;;;
        nx <- p_expression_opt f ;;
        expect K_RPAREN ;;;
        st <- p_pragmacomp_or_statement f ;;
        c <- tcoord t ;;
        ret (mkN C_For [init; cond; nx; st] c)
      else
        init <- p_expression_opt f ;;
        expect K_SEMI ;;;
        cond <- p_expression_opt f ;;
        expect K_SEMI ;;;
        nx <- p_expression_opt f ;;
        expect K_RPAREN ;;;
        st <- p_pragmacomp_or_statement f ;;
        c <- tcoord t ;;
        ret (mkN C_For [init; cond; nx; st] c)
    else c <- tok_coord t ;; fail (L_coord P c) (s2l "Invalid iteration statement")
  end
with p_expression_opt (fuel: nat) : M node :=
  match fuel with O => oof | S f =>
    se <- starts_expression P ;;
    if se then p_expression f else ret VNone
  end
with p_jump_statement (fuel: nat) : M node :=
  match fuel with O => oof | S f =>
    t <- advance ;;
    if kind_eqb (tk t) K_GOTO then
      nt <- expect K_ID ;; expect K_SEMI ;;; c <- tcoord t ;; ret (mkN C_Goto [VStr (tv nt)] c)
    else if kind_eqb (tk t) K_BREAK then
      expect K_SEMI ;;; c <- tcoord t ;; ret (mkN C_Break [] c)
    else if kind_eqb (tk t) K_CONTINUE then
      expect K_SEMI ;;; c <- tcoord t ;; ret (mkN C_Continue [] c)
    else if kind_eqb (tk t) K_RETURN then
      sm <- accept K_SEMI ;;
      match sm with
      | Some _ => c <- tcoord t ;; ret (mkN C_Return [VNone] c)
      | None => e <- p_expression f ;; expect K_SEMI ;;; c <- tcoord t ;; ret (mkN C_Return [e] c)
      end
    else c <- tok_coord t ;; fail (L_coord P c) (s2l "Invalid jump statement")
  end
with p_expression_statement (fuel: nat) : M node :=
  match fuel with O => oof | S f =>
    e <- p_expression_opt f ;;
    sm <- expect K_SEMI ;;
    match e with
    | VNone => c <- tcoord sm ;; ret (mkN C_EmptyStatement [] c)
    | _ => ret e
    end
  end
with p_pppragma_directive (fuel: nat) : M node :=
  match fuel with O => oof | S f =>
    k <- peek_kind ;;
    if okind_is k K_PPPRAGMA then
      t <- advance ;;
      k2 <- peek_kind ;;
      if okind_is k2 K_PPPRAGMASTR then
        st <- advance ;; c <- tcoord st ;; ret (mkN C_Pragma [VStr (tv st)] c)
      else c <- tcoord t ;; ret (mkN C_Pragma [VStr []] c)
    else if okind_is k K_uPRAGMA then
      advance ;;;
      lp <- expect K_LPAREN ;;
      lit <- p_unified_string_literal f ;;
      expect K_RPAREN ;;;
      c <- tcoord lp ;;
      ret (mkN C_Pragma [lit] c)
    else fl <- cur_file P ;; fail (L_file P fl) (s2l "Invalid pragma")
  end
with p_pppragma_directive_list (fuel: nat) : M (list node) :=
  match fuel with O => oof | S f =>
    k <- peek_kind ;;
    if okind_is k K_PPPRAGMA || okind_is k K_uPRAGMA then
      p <- p_pppragma_directive f ;; r <- p_pppragma_directive_list f ;; ret (p :: r)
    else ret []
  end
with p_static_assert (fuel: nat) : M (list node) :=
  match fuel with O => oof | S f =>
    t <- expect K_uSTATIC_ASSERT ;;
    expect K_LPAREN ;;;
    cond <- p_conditional_expression f ;;
    cm <- accept K_COMMA ;;
    msg <- (match cm with
            | Some _ => k <- peek_kind ;; if okind_in k tbl_WSTR_LITERAL then p_unified_wstring_literal f else p_unified_string_literal f
            | None => ret VNone end) ;;
    expect K_RPAREN ;;;
    c <- tcoord t ;;
    ret [mkN C_StaticAssert [cond; msg] c]
  end
(* ================= top level ================= *)
with p_external_declaration (fuel: nat) : M (list node) :=
  match fuel with O => oof | S f =>
    t <- peek ;;
    match t with
    | None => ret []
    | Some t' =>
      let k := tk t' in
      if kind_eqb k K_PPHASH then
        ht <- expect K_PPHASH ;; c <- tok_coord ht ;; fail (L_coord P c) (s2l "Directives not supported yet")
      else if kind_eqb k K_PPPRAGMA || kind_eqb k K_uPRAGMA then (p <- p_pppragma_directive f ;; ret [p])
      else
      sm <- accept K_SEMI ;;
      match sm with
      | Some _ => ret []
      | None =>
        if kind_eqb k K_uSTATIC_ASSERT then p_static_assert f
        else if negb (kind_in k tbl_DECL_START) then
          decl <- p_declarator_kind f true true ;;
          k2 <- peek_kind ;;
          dc <- coordA decl ;;
          if negb (okind_is k2 K_LBRACE) then fail (loc_of P dc) (s2l "Invalid function definition")
          else
            let spec := mkSpec P [] [] [mkIdType P [s_int] dc] [] [] in
            body <- p_compound_statement f ;;
            fd <- build_function_definition P spec decl VNone body ;;
            ret [fd]
        else
          r <- p_declaration_specifiers f true ;;
          let '(spec, saw_type, spec_coord) := r in
          info <- peek_declarator_name_info f ;;
          if negb (okind_is (fst info) K_ID) then
            ds <- p_decl_body_with_spec f spec saw_type ;;
            expect K_SEMI ;;;
            ret ds
          else
            decl <- p_declarator_kind f true true ;;
            k2 <- peek_kind ;;
            sd <- starts_declaration P ;;
            if okind_is k2 K_LBRACE || sd then
              pds <- (if sd then (l <- p_declaration_list f ;; ret (VList l)) else ret VNone) ;;
              k3 <- peek_kind ;;
              dc <- coordA decl ;;
              if negb (okind_is k3 K_LBRACE) then fail (loc_of P dc) (s2l "Invalid function definition")
              else
                let spec' := match s_type P spec with
                             | [] => with_type P spec [mkIdType P [s_int] spec_coord]
                             | _ => spec end in
                body <- p_compound_statement f ;;
                fd <- build_function_definition P spec' decl pds body ;;
                ret [fd]
            else
              eq <- accept K_EQUALS ;;
              init <- (match eq with Some _ => p_initializer f | None => ret VNone end) ;;
              infos <- p_init_declarator_list f (Some (mkDI P (Some decl) init VNone)) false ;;
              ds <- build_declarations P spec infos true ;;
              expect K_SEMI ;;;
              ret ds
      end
    end
  end
with p_translation_unit (fuel: nat) : M (list node) :=
  match fuel with O => oof | S f =>
    t <- peek ;;
    match t with
    | None => ret []
    | Some _ => e <- p_external_declaration f ;; r <- p_translation_unit f ;; ret (e ++ r)
    end
  end.

(* CParser.parse, after the three resets *)
Definition parse_tokens (fuel: nat) : M node :=
  ext <- p_translation_unit fuel ;;
  t <- peek ;;
  match t with
  | Some t' => c <- tok_coord t' ;; fail (L_coord P c) (s2l "before: " ++ tv t')
  | None => ret (mkN C_FileAST [VList ext] None)
  end.

Definition init_pstate (items: list (pitem P)) (eof_f: P) (filename: P) : pstate P :=
  mkPS P items eof_f [] [] 0 [[]] filename 0.

End PM.
