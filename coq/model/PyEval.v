(* Evaluator for the string literals that repr(str) emits (the inverse used by eval(repr(s))). *)
From Coq Require Import List NArith Bool Arith.
Import ListNotations.
From PV Require Import Regex Base PyRepr.
Open Scope N_scope.

Definition hexval (c: N) : option N :=
  if (48 <=? c) && (c <=? 57) then Some (c - 48)
  else if (97 <=? c) && (c <=? 102) then Some (c - 87)
  else if (65 <=? c) && (c <=? 70) then Some (c - 55)
  else None.

Fixpoint hexnum (ds: list N) (acc: N) : option N :=
  match ds with
  | [] => Some acc
  | d :: r => match hexval d with Some v => hexnum r (acc * 16 + v) | None => None end
  end.

(* one element of a string literal body: the closing quote, a plain character, or an escape *)
Definition decode1 (q: N) (s: str) : option (option N * str) :=
  match s with
  | [] => None
  | c :: r =>
    if N.eqb c q then Some (None, r)
    else if N.eqb c 10 then None                      (* a raw newline cannot occur in a literal *)
    else if negb (N.eqb c 92) then Some (Some c, r)
    else
      match r with
      | [] => None
      | e :: r2 =>
        if N.eqb e 92 then Some (Some 92, r2)
        else if N.eqb e 39 then Some (Some 39, r2)
        else if N.eqb e 34 then Some (Some 34, r2)
        else if N.eqb e 116 then Some (Some 9, r2)
        else if N.eqb e 110 then Some (Some 10, r2)
        else if N.eqb e 114 then Some (Some 13, r2)
        else if N.eqb e 120 then
          match r2 with
          | a :: b :: t => match hexnum [a; b] 0 with Some v => Some (Some v, t) | None => None end
          | _ => None
          end
        else if N.eqb e 117 then
          match r2 with
          | a :: b :: c1 :: d :: t => match hexnum [a; b; c1; d] 0 with Some v => Some (Some v, t) | None => None end
          | _ => None
          end
        else if N.eqb e 85 then
          match r2 with
          | a :: b :: c1 :: d :: a2 :: b2 :: c2 :: d2 :: t =>
            match hexnum [a; b; c1; d; a2; b2; c2; d2] 0 with Some v => Some (Some v, t) | None => None end
          | _ => None
          end
        else None
      end
  end.

Fixpoint unrepr_body (fuel: nat) (q: N) (s: str) : option (str * str) :=
  match fuel with
  | O => None
  | S f =>
    match decode1 q s with
    | None => None
    | Some (None, rest) => Some ([], rest)
    | Some (Some c, rest) => match unrepr_body f q rest with Some (d, t) => Some (c :: d, t) | None => None end
    end
  end.

(* eval of a string literal at the head of s: returns the string and the remaining text *)
Definition unrepr_str (s: str) : option (str * str) :=
  match s with
  | q :: r => if N.eqb q 39 || N.eqb q 34 then unrepr_body (length r) q r else None
  | [] => None
  end.
