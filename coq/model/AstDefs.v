(* Data types for the AST specification (_c_ast.cfg) and for the statically
   read structure of the node classes (c_ast.py). *)
From Coq Require Import List NArith.
Import ListNotations.
From PV Require Import Regex.

Inductive ekind := EAttr | EChild | ESeq.
Record class_spec := { cs_name : str; cs_entries : list (str * ekind) }.

(* children(): `if self.X is not None: nodelist.append((L, self.Y))`
               `for i, child in enumerate(self.X or []): nodelist.append((f"L[{i}]", child))` *)
Inductive cstep := CS_child (x l y: str) | CS_seq (x l: str).
Inductive children_prog := CP_empty | CP_steps (s: list cstep).
(* __iter__: `if self.X is not None: yield self.Y` / `for child in (self.X or []): yield child` *)
Inductive istep := IS_child (x y: str) | IS_seq (x: str).
Inductive iter_prog := IP_empty | IP_steps (s: list istep).

Record class_impl := {
  ci_name : str;
  ci_slots : list str;
  ci_params : list str;          (* __init__ parameters after self *)
  ci_ndefaults : nat;            (* how many trailing parameters default to None *)
  ci_assigns : list (str * str); (* self.a = b *)
  ci_children : children_prog;
  ci_iter : iter_prog;
  ci_attr_names : list str
}.
