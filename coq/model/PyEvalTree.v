(* Evaluator for the expression language that Node.__repr__ / _repr emit:
   Class(field=value, ...) | [ value, ... ] | 'string' | None, white space and newlines free
   between tokens.  (Python's eval accepts keyword arguments in any order; repr emits them in
   slot order, which is what this evaluator checks.) *)
From Coq Require Import List NArith Bool Arith.
Import ListNotations.
From PV Require Import Regex Base PyRepr PyEval AstDefs AstSpec AstImpl NodeModel.
Open Scope N_scope.
Inductive rtok := TName (n: str) | TLP | TRP | TLB | TRB | TComma | TEq | TStr (v: str).

Definition is_name_start (c: N) : bool := (65 <=? c) && (c <=? 90) || (97 <=? c) && (c <=? 122) || (c =? 95).
Definition is_name_char (c: N) : bool := is_name_start c || (48 <=? c) && (c <=? 57).
Definition is_ws (c: N) : bool := (c =? 32) || (c =? 10).

Fixpoint span_name (s: str) : str * str :=
  match s with
  | c :: r => if is_name_char c then let (a, b) := span_name r in (c :: a, b) else ([], s)
  | [] => ([], [])
  end.

Fixpoint rtoks (fuel: nat) (s: str) : option (list rtok) :=
  match fuel with
  | O => None
  | S f =>
    match s with
    | [] => Some []
    | c :: r =>
      let cons (t: rtok) (rest: str) := match rtoks f rest with Some l => Some (t :: l) | None => None end in
      if is_ws c then rtoks f r
      else if c =? 40 then cons TLP r
      else if c =? 41 then cons TRP r
      else if c =? 91 then cons TLB r
      else if c =? 93 then cons TRB r
      else if c =? 44 then cons TComma r
      else if c =? 61 then cons TEq r
      else if (c =? 39) || (c =? 34) then
        match unrepr_body (length r) c r with
        | Some (v, rest) => cons (TStr v) rest
        | None => None
        end
      else if is_name_start c then let (nm, rest) := span_name s in cons (TName nm) rest
      else None
    end
  end.

Section Eval.
Variable C : Type.

Definition cls_of_name (n: str) : option cls := find (fun c => str_eqb (cls_name c) n) all_cls.
Definition repr_fields (c: cls) : option (list str) :=
  match impl_of c with Some ci => Some (firstn (Nat.sub (length (ci_slots ci)) 2) (ci_slots ci)) | None => None end.

Definition s_None_tok : str := s2l "None".

Definition wrap_list (o: option (list (value C) * list rtok)) : option (value C * list rtok) :=
  match o with Some (vs, r') => Some (VList vs, r') | None => None end.
Definition wrap_node (c: cls) (o: option (list (value C) * list rtok)) : option (value C * list rtok) :=
  match o with Some (vs, r') => Some (VNode c vs None, r') | None => None end.

(* v , v , ... v ]   -- at least one item; n bounds the number of items *)
Definition pitems (pv: list rtok -> option (value C * list rtok)) : nat -> list rtok -> option (list (value C) * list rtok) :=
  fix items (n: nat) (ts: list rtok) : option (list (value C) * list rtok) :=
    match n with
    | O => None
    | S n' =>
      match pv ts with
      | Some (v, TComma :: r1) => match items n' r1 with Some (vs, r2) => Some (v :: vs, r2) | None => None end
      | Some (v, TRB :: r1) => Some ([v], r1)
      | _ => None
      end
    end.

(* name = v , name = v ... )   -- exactly the given names, in order *)
Definition pargs (pv: list rtok -> option (value C * list rtok)) : list str -> bool -> list rtok -> option (list (value C) * list rtok) :=
  fix args (fs: list str) (first: bool) (ts: list rtok) : option (list (value C) * list rtok) :=
    match fs with
    | [] => match ts with TRP :: r1 => Some ([], r1) | _ => None end
    | fn :: fs' =>
      let ts1 := if first then Some ts else match ts with TComma :: r1 => Some r1 | _ => None end in
      match ts1 with
      | Some (TName k :: TEq :: r1) =>
        if str_eqb k fn then
          match pv r1 with
          | Some (v, r2) => match args fs' false r2 with Some (vs, r3) => Some (v :: vs, r3) | None => None end
          | None => None
          end
        else None
      | _ => None
      end
    end.

Fixpoint pval (fuel: nat) (ts: list rtok) : option (value C * list rtok) :=
  match fuel with
  | O => None
  | S f =>
    match ts with
    | TStr v :: r => Some (VStr v, r)
    | TLB :: TRB :: r' => Some (VList [], r')
    | TLB :: r => wrap_list (pitems (pval f) (length r) r)
    | TName n :: TLP :: r =>
      match cls_of_name n with
      | None => None
      | Some c =>
        match repr_fields c with
        | None => None
        | Some fields => wrap_node c (pargs (pval f) fields true r)
        end
      end
    | TName n :: r => if str_eqb n s_None_tok then Some (VNone, r) else None
    | _ => None
    end
  end.

Definition pyeval (fuel: nat) (text: str) : option (value C) :=
  match rtoks (S (length text)) text with
  | Some ts => match pval fuel ts with Some (v, []) => Some v | _ => None end
  | None => None
  end.
End Eval.
