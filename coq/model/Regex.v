(* Model of Python's `re` backtracking semantics for the opcode subset used by
   pycparser's lexer (LITERAL, IN, BRANCH, MAX_REPEAT, SUBPATTERN, ASSERT_NOT,
   AT_END).  Continuation-passing matcher: the first success in priority order
   (left alternative first, greedy repetition first) is the match Python's
   `re.match` reports.

   Fuel [n0] bounds the number of iterations of every [Star]; the translator
   refuses nullable star bodies, so every iteration consumes a character and a
   fuel of [length s] is never exhausted (lemma [m_fuel_irrelevant] in
   proofs/RegexLemmas.v). *)
From Coq Require Import List NArith Bool Arith.
Import ListNotations.

Definition chr := N.
Definition str := list N.

Inductive cset := CSet (neg: bool) (ranges: list (N*N)).

Definition in_ranges (c: chr) (rs: list (N*N)) : bool :=
  existsb (fun r => N.leb (fst r) c && N.leb c (snd r)) rs.

Definition cset_mem (c: chr) (cs: cset) : bool :=
  match cs with CSet neg rs => xorb neg (in_ranges c rs) end.

Inductive re :=
| Eps
| Chr (cs: cset)
| Seq (a b: re)
| Alt (a b: re)
| Star (a: re)          (* greedy, unbounded *)
| NotAhead (a: re)      (* (?!a) *)
| AtEnd.                (* $ without MULTILINE: at end, or before a final newline *)

Definition at_end (s: str) : bool :=
  match s with [] => true | [c] => N.eqb c 10 | _ => false end.

(* [i] counts the characters consumed so far; the continuation receives the
   count and the remaining input. *)
Fixpoint m (A: Type) (n0: nat) (r: re) (i: nat) (s: str) (k: nat -> str -> option A) {struct r} : option A :=
  match r with
  | Eps => k i s
  | Chr cs => match s with c :: s' => if cset_mem c cs then k (S i) s' else None | [] => None end
  | Seq a b => m A n0 a i s (fun i' s' => m A n0 b i' s' k)
  | Alt a b => match m A n0 a i s k with Some x => Some x | None => m A n0 b i s k end
  | Star a =>
      (fix loop (n: nat) (i: nat) (s: str) {struct n} : option A :=
         match n with
         | O => k i s
         | S n' =>
           match m A n0 a i s (fun i' s' => loop n' i' s') with
           | Some x => Some x
           | None => k i s
           end
         end) n0 i s
  | NotAhead a => match m unit n0 a i s (fun _ _ => Some tt) with Some _ => None | None => k i s end
  | AtEnd => if at_end s then k i s else None
  end.

(* match one regex at the head of s; returns (length consumed, rest) *)
Definition match_re (n0: nat) (r: re) (s: str) : option (nat * str) :=
  m (nat * str) n0 r 0 s (fun i s' => Some (i, s')).

Fixpoint nullable (r: re) : bool :=
  match r with
  | Eps => true | Chr _ => false
  | Seq a b => nullable a && nullable b
  | Alt a b => nullable a || nullable b
  | Star _ => true | NotAhead _ => true | AtEnd => true
  end.

(* every star body is non-nullable (what the translator enforces; re-checked
   by computation on the generated tables) *)
Fixpoint stars_ok (r: re) : bool :=
  match r with
  | Eps | Chr _ | AtEnd => true
  | Seq a b | Alt a b => stars_ok a && stars_ok b
  | Star a => negb (nullable a) && stars_ok a
  | NotAhead a => stars_ok a
  end.
