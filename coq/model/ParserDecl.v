(* Parser model, part 2: declaration building (_add_declaration_specifier,
   _build_declarations, _build_function_definition, _build_parameter_declaration
   pieces that do not call productions), constant typing. *)
From Coq Require Import List NArith Bool Arith.
Import ListNotations.
From PV Require Import Regex Base LexTables ParserTables AstDefs AstSpec AstImpl PyRepr NodeModel ParserBase.
Open Scope N_scope.

Section PD.
Variable P : Type.
Notation node := (node P).
Notation M := (M P).
Notation coord := (coord P).

Notation "x <- m ;; f" := (bind P m (fun x => f)) (at level 61, m at next level, right associativity).
Notation "m ;;; f" := (bind P m (fun _ => f)) (at level 61, right associativity).
Notation ret := (ret P).
Notation fail := (fail P).
Notation crash := (crash P).

Record dspec := mkSpec {
  s_qual : list str; s_storage : list str; s_type : list node; s_function : list str; s_alignment : list node }.
Definition empty_spec : dspec := mkSpec [] [] [] [] [].
Definition spec_or_new (o: option dspec) : dspec := match o with Some s => s | None => empty_spec end.
Definition add_qual (o: option dspec) (q: str) : option dspec :=
  let s := spec_or_new o in Some (mkSpec (s_qual s ++ [q]) (s_storage s) (s_type s) (s_function s) (s_alignment s)).
Definition add_storage (o: option dspec) (q: str) : option dspec :=
  let s := spec_or_new o in Some (mkSpec (s_qual s) (s_storage s ++ [q]) (s_type s) (s_function s) (s_alignment s)).
Definition add_type (o: option dspec) (t: node) : option dspec :=
  let s := spec_or_new o in Some (mkSpec (s_qual s) (s_storage s) (s_type s ++ [t]) (s_function s) (s_alignment s)).
Definition add_function (o: option dspec) (q: str) : option dspec :=
  let s := spec_or_new o in Some (mkSpec (s_qual s) (s_storage s) (s_type s) (s_function s ++ [q]) (s_alignment s)).
Definition add_alignment (o: option dspec) (t: node) : option dspec :=
  let s := spec_or_new o in Some (mkSpec (s_qual s) (s_storage s) (s_type s) (s_function s) (s_alignment s ++ [t])).
Definition with_type (s: dspec) (t: list node) : dspec :=
  mkSpec (s_qual s) (s_storage s) t (s_function s) (s_alignment s).
Definition with_qual (s: dspec) (q: list str) : dspec :=
  mkSpec q (s_storage s) (s_type s) (s_function s) (s_alignment s).

Record dinfo := mkDI { d_decl : option node; d_init : node; d_bitsize : node }.

Definition WF : nat := 5000.   (* fuel for walks along one declarator chain *)

Definition mkTypeDecl (declname quals align type: node) (co: option coord) : node :=
  mkN P C_TypeDecl [declname; quals; align; type] co.
Definition empty_TypeDecl : node := mkTypeDecl VNone VNone VNone VNone None.
Definition mkIdType (names: list str) (co: option coord) : node := mkN P C_IdentifierType [vstrs P names] co.

Definition is_suE_or_idtype (v: node) : bool :=
  is_cls P C_Enum v || is_cls P C_Struct v || is_cls P C_Union v || is_cls P C_IdentifierType v.

(* spec["type"][-1].names as a Python list of str; crashes as the code would *)
Definition last_type_names (tys: list node) : M (list node) :=
  match last_opt tys with
  | None => crash CK_Index
  | Some t => ns <- getA P a_names t ;;
              match ns with VList l => ret l | _ => crash CK_Type end
  end.

Definition first_name (ns: list node) : M (option str) :=
  match ns with
  | VStr s :: _ => ret (Some s)
  | VNone :: _ => ret None
  | [] => crash CK_Index
  | _ => crash CK_Type
  end.

Definition name_of_value (v: node) : M (option str) :=
  match v with VStr s => ret (Some s) | VNone => ret None | _ => crash CK_Type end.

(* depth (number of .type hops) from a declaration to its first TypeDecl *)
Fixpoint typedecl_depth (fuel: nat) (v: node) : option nat :=
  match fuel with
  | O => None
  | S f => if is_cls P C_TypeDecl v then Some O
           else match get_attr P a_type v with Some t => option_map S (typedecl_depth f t) | None => None end
  end.
Fixpoint subtree_at (d: nat) (v: node) : option node :=
  match d with
  | O => Some v
  | S d' => match get_attr P a_type v with Some t => subtree_at d' t | None => None end
  end.

(* first-declarator adjustments of _build_declarations; returns the new spec and declarator list *)
Definition adjust_first (spec: dspec) (decls: list dinfo) : M (dspec * list dinfo) :=
  match decls with
  | [] => crash CK_Index
  | d0 :: rest =>
    match d_bitsize d0 with
    | VNone =>
      match d_decl d0 with
      | None =>
        let ty := s_type spec in
        bad <- (if Nat.ltb (length ty) 2 then ret true
                else if negb (match last_opt ty with Some t => is_cls P C_IdentifierType t | None => false end) then ret true
                else ns <- last_type_names ty ;;
                     if negb (Nat.eqb (length ns) 1) then ret true
                     else n0 <- first_name ns ;; b <- is_type_in_scope P n0 ;; ret (negb b)) ;;
        if bad then
          match ty with
          | [] => fl <- cur_file P ;; fail (L_file P fl) (s2l "Invalid declaration")
          | t0 :: _ => c <- coordA P t0 ;; fail (loc_of P c) (s2l "Invalid declaration")
          end
        else
          ns <- last_type_names ty ;;
          n0 <- first_name ns ;;
          lt <- lift_opt P CK_Index (last_opt ty) ;;
          lc <- coordA P lt ;;
          let td := mkTypeDecl (vostr P n0) VNone (VList (s_alignment spec)) VNone lc in
          ret (with_type spec (drop_last ty), mkDI (Some td) (d_init d0) (d_bitsize d0) :: rest)
      | Some dd =>
        if is_suE_or_idtype dd then ret (spec, decls)
        else
          tail <- find_typedecl P WF dd ;;
          dn <- getA P a_declname tail ;;
          match dn with
          | VNone =>
            ns <- last_type_names (s_type spec) ;;
            n0 <- first_name ns ;;
            dd' <- map_typedecl P WF (fun t => setA P a_declname (vostr P n0) t) dd ;;
            ret (with_type spec (drop_last (s_type spec)), mkDI (Some dd') (d_init d0) (d_bitsize d0) :: rest)
          | _ => ret (spec, decls)
          end
      end
    | _ => ret (spec, decls)
    end
  end.

Definition quals_value (spec: dspec) : node := vstrs P (s_qual spec).

(* one iteration of the `for decl in decls` loop; threads the shared spec lists *)
Definition build_one (spec: dspec) (is_typedef typedef_namespace: bool) (d: dinfo) : M (node * dspec) :=
  match d_decl d with
  | None => crash CK_Assertion
  | Some dd =>
    dc <- coordA P dd ;;
    let declaration :=
      if is_typedef then mkN P C_Typedef [VNone; quals_value spec; vstrs P (s_storage spec); dd] dc
      else mkN P C_Decl [VNone; quals_value spec; VList (s_alignment spec); vstrs P (s_storage spec);
                         vstrs P (s_function spec); dd; d_init d; d_bitsize d] dc in
    let own_depth := typedecl_depth WF declaration in
    fixed <- (if is_suE_or_idtype dd then ret declaration
              else fix_decl_name_type P WF declaration (s_type spec)) ;;
    (if typedef_namespace then
       nm <- getA P a_name fixed ;; n <- name_of_value nm ;; fc <- coordA P fixed ;;
       (if is_typedef then add_typedef_name P n fc else add_identifier P n fc)
     else ret tt) ;;;
    fixed2 <- fix_atomic_specifiers P WF fixed ;;
    (* shared objects: the quals list (Decl.quals is spec["qual"]) and an _Atomic(...) specifier node *)
    q2 <- getA P a_quals fixed2 ;;
    quals' <- (match q2 with
               | VList l => ret (flat_map (fun e => match e with VStr s => [s] | _ => [] end) l)
               | _ => ret (s_qual spec) end) ;;
    let spec1 := with_qual spec quals' in
    let spec2 :=
      match s_type spec1, own_depth with
      | [tn], Some dep =>
        if is_cls P C_Typename tn && negb (is_suE_or_idtype dd) then
          match subtree_at dep fixed2 with
          | Some shared => match set_attr P a_type shared tn with Some tn' => with_type spec1 [tn'] | None => spec1 end
          | None => spec1
          end
        else spec1
      | _, _ => spec1
      end in
    ret (fixed2, spec2)
  end.

Fixpoint build_loop (spec: dspec) (is_typedef tns: bool) (ds: list dinfo) : M (list node * dspec) :=
  match ds with
  | [] => ret ([], spec)
  | d :: r =>
    x <- build_one spec is_typedef tns d ;;
    y <- build_loop (snd x) is_typedef tns r ;;
    ret (fst x :: fst y, snd y)
  end.

(* every Decl built from this spec shares the quals list object: give all of them its final content *)
Definition build_declarations (spec: dspec) (decls: list dinfo) (typedef_namespace: bool) : M (list node) :=
  let is_typedef := mem_str (s2l "typedef") (s_storage spec) in
  a <- adjust_first spec decls ;;
  r <- build_loop (fst a) is_typedef typedef_namespace (snd a) ;;
  let final_q := vstrs P (s_qual (snd r)) in
  ret (map (fun d => match set_attr P a_quals final_q d with Some d' => d' | None => d end) (fst r)).

Definition build_function_definition (spec: dspec) (decl: node) (param_decls: node) (body: node) : M node :=
  dc <- coordA P decl ;;
  if mem_str (s2l "typedef") (s_storage spec) then fail (loc_of P dc) (s2l "Invalid typedef")
  else
    ds <- build_declarations spec [mkDI (Some decl) VNone VNone] true ;;
    match ds with
    | d :: _ => ret (mkN P C_FuncDef [d; param_decls; body] dc)
    | [] => crash CK_Index
    end.

(* ---- constants ------------------------------------------------------------------------ *)
Definition last_n (n: nat) (s: str) : str := skipn (nsub (length s) n) s.
Definition count_if (f: N -> bool) (s: str) : nat := length (filter f s).
Definition is_lL (c: N) : bool := N.eqb c 108 || N.eqb c 76.
Definition is_uU (c: N) : bool := N.eqb c 117 || N.eqb c 85.

Definition int_const_type (is_multichar: bool) (v: str) : option str :=   (* None = ValueError *)
  let tail := if is_multichar then [] else last_n 3 v in
  (* the loop counts l/L first, then u/U, per character *)
  let l := count_if is_lL tail in
  let u := count_if (fun c => negb (is_lL c) && is_uU c) tail in
  if Nat.ltb 1 u then None
  else if Nat.ltb 2 l then None
  else Some (concat_str (repeat (s2l "unsigned ") u) ++ concat_str (repeat (s2l "long ") l) ++ s2l "int").

Definition float_const_type (v: str) : option str :=   (* None = IndexError on empty value *)
  match last_opt v with
  | None => None
  | Some c => Some (if N.eqb c 102 || N.eqb c 70 then s2l "float"
                    else if is_lL c then s2l "long double" else s2l "double")
  end.

Definition mkConstant (ty v: str) (co: option coord) : node := mkN P C_Constant [VStr ty; VStr v] co.

End PD.
