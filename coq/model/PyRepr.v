(* Model of CPython's repr(str) (Objects/unicodeobject.c: unicode_repr), with
   the printability oracle as a parameter [pr]; the concrete oracle is the
   table generated from the running interpreter (gen/UnicodeTables.v). *)
From Coq Require Import List NArith Bool Arith.
Import ListNotations.
From PV Require Import Regex Base UnicodeTables.

Definition QUOTE : N := 39.   (* single quote *)
Definition DQUOTE : N := 34.  (* double quote *)
Definition BSLASH : N := 92.

Definition has_chr (c: N) (s: str) : bool := existsb (N.eqb c) s.

Definition repr_quote (s: str) : N :=
  if has_chr QUOTE s && negb (has_chr DQUOTE s) then DQUOTE else QUOTE.

Definition repr_char (pr: N -> bool) (q: N) (c: N) : str :=
  if N.eqb c q || N.eqb c BSLASH then [BSLASH; c]
  else if N.eqb c 9 then [BSLASH; 116]
  else if N.eqb c 10 then [BSLASH; 110]
  else if N.eqb c 13 then [BSLASH; 114]
  else if N.ltb c 32 || N.eqb c 127 then BSLASH :: 120 :: hex_fixed 2 c []
  else if N.ltb c 127 then [c]
  else if pr c then [c]
  else if N.leb c 255 then BSLASH :: 120 :: hex_fixed 2 c []
  else if N.leb c 65535 then BSLASH :: 117 :: hex_fixed 4 c []
  else BSLASH :: 85 :: hex_fixed 8 c [].

Definition py_repr_with (pr: N -> bool) (s: str) : str :=
  let q := repr_quote s in
  q :: flat_map (repr_char pr q) s ++ [q].

Definition isprintable (c: N) : bool := in_ranges c printable_ranges.
Definition py_repr (s: str) : str := py_repr_with isprintable s.
