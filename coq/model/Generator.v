(* Hand-written model of pycparser/c_generator.py (CGenerator): every visit_* method,
   _generate_stmt, _generate_decl, _generate_type, the parenthesisation helpers and the
   indentation state.  Works on the uni-typed AST of NodeModel.v, for any coordinate type C
   (the generator never looks at coordinates).  precedence_map comes from gen/GenTables.v. *)
From Coq Require Import String.
From Coq Require Import List NArith ZArith Bool Arith.
Import ListNotations.
From PV Require Import Regex Base AstDefs AstSpec AstImpl GenTables NodeModel.
Open Scope N_scope.

Inductive gres (A: Type) := GOk (a: A) | GCrash | GFuel.
Arguments GOk {A} a.
Arguments GCrash {A}.
Arguments GFuel {A}.

Section GEN.
Variable C : Type.                 (* coordinate type: opaque *)
Variable rp : bool.                (* reduce_parentheses *)
Notation node := (value C).

Definition GM (A: Type) := Z -> gres (A * Z).      (* state = indent_level *)
Definition gret {A} (a: A) : GM A := fun s => GOk (a, s).
Definition gbind {A B} (m: GM A) (f: A -> GM B) : GM B :=
  fun s => match m s with GOk (a, s') => f a s' | GCrash => GCrash | GFuel => GFuel end.
Definition gcrash {A} : GM A := fun _ => GCrash.
Definition gfuel {A} : GM A := fun _ => GFuel.
Definition get_indent : GM Z := fun s => GOk (s, s).
Definition add_indent (d: Z) : GM unit := fun s => GOk (tt, (s + d)%Z).
Definition set_indent (v: Z) : GM unit := fun _ => GOk (tt, v).

Notation "x <- m ;; f" := (gbind m (fun x => f)) (at level 61, m at next level, right associativity).
Notation "m ;;; f" := (gbind m (fun _ => f)) (at level 61, right associativity).

Definition make_indent : GM str := s <- get_indent ;; gret (repeat 32 (Z.to_nat s)).

Definition gattr (x: String.string) (n: node) : GM node :=
  match n with
  | VNode c fs _ => match impl_of c with
                    | Some ci => match get_field C ci fs (s2l x) with Some v => gret v | None => gcrash end
                    | None => gcrash end
  | _ => gcrash
  end.
Arguments gattr x%string n.

Definition as_str (v: node) : GM str := match v with VStr s => gret s | _ => gcrash end.

(* " ".join(v) for a list of str *)
Fixpoint strs_of (l: list node) : GM (list str) :=
  match l with
  | [] => gret []
  | VStr x :: r => rest <- strs_of r ;; gret (x :: rest)
  | _ => gcrash
  end.
Definition join_list (sep: str) (v: node) : GM (list str) :=
  match v with VList l => strs_of l | _ => gcrash end.
Definition join_strs (sep: str) (v: node) : GM str := l <- join_list sep v ;; gret (join_str sep l).

Definition truthy_v (v: node) : bool := match v with VNone => false | VStr [] => false | VList [] => false | _ => true end.
Definition is_c (c: cls) (n: node) : bool := match n with VNode c' _ _ => cls_eqb c c' | _ => false end.
Definition is_simple (n: node) : bool :=
  is_c C_Constant n || is_c C_ID n || is_c C_ArrayRef n || is_c C_StructRef n || is_c C_FuncCall n.

Definition prec_lookup_s (op: str) : option nat := assoc_str op gen_precedence_map.

Definition s (x: String.string) : str := s2l x.
Arguments s x%string.

Definition stmt_with_semicolon (n: node) : bool :=
  is_c C_Decl n || is_c C_Assignment n || is_c C_Cast n || is_c C_UnaryOp n || is_c C_BinaryOp n || is_c C_TernaryOp n ||
  is_c C_FuncCall n || is_c C_ArrayRef n || is_c C_StructRef n || is_c C_Constant n || is_c C_ID n || is_c C_Typedef n ||
  is_c C_ExprList n || is_c C_CompoundLiteral n.

Fixpoint mapM {A B} (f: A -> GM B) (l: list A) : GM (list B) :=
  match l with [] => gret [] | x :: r => y <- f x ;; ys <- mapM f r ;; gret (y :: ys) end.

Definition as_list (v: node) : GM (list node) := match v with VList l => gret l | _ => gcrash end.

Fixpoint visit (fuel: nat) (n: node) {struct fuel} : GM str :=
  match fuel with O => gfuel | S f =>
  match n with
  | VNone => gret []                         (* generic_visit(None) *)
  | VStr _ | VList _ => gcrash               (* generic_visit: no children() *)
  | VNode c fs co =>
    match c with
    | C_Constant => v <- gattr "value" n ;; as_str v
    | C_ID => v <- gattr "name" n ;; as_str v
    | C_Pragma =>
      st <- gattr "string" n ;;
      if truthy_v st then (x <- as_str st ;; gret (s "#pragma" ++ s " " ++ x)) else gret (s "#pragma")
    | C_ArrayRef =>
      nm <- gattr "name" n ;; a <- paren_unless_simple f nm ;;
      sub <- gattr "subscript" n ;; b <- visit f sub ;; gret (a ++ s "[" ++ b ++ s "]")
    | C_StructRef =>
      nm <- gattr "name" n ;; a <- paren_unless_simple f nm ;;
      ty <- gattr "type" n ;; t <- as_str ty ;;
      fl <- gattr "field" n ;; b <- visit f fl ;; gret (a ++ t ++ b)
    | C_FuncCall =>
      nm <- gattr "name" n ;; a <- paren_unless_simple f nm ;;
      ar <- gattr "args" n ;;
      b <- (match ar with VNone => gret [] | _ => visit f ar end) ;;
      gret (a ++ s "(" ++ b ++ s ")")
    | C_UnaryOp =>
      opv <- gattr "op" n ;; e <- gattr "expr" n ;;
      match opv with
      | VStr op =>
        if str_eqb op (s "sizeof") then (x <- visit f e ;; gret (s "sizeof(" ++ x ++ s ")"))
        else if str_eqb op (s "p++") then (x <- paren_unless_simple f e ;; gret (x ++ s "++"))
        else if str_eqb op (s "p--") then (x <- paren_unless_simple f e ;; gret (x ++ s "--"))
        else (x <- paren_unless_simple f e ;; gret (op ++ x))
      | _ => gcrash
      end
    | C_BinaryOp =>
      opv <- gattr "op" n ;; op <- as_str opv ;;
      l <- gattr "left" n ;; r <- gattr "right" n ;;
      let cond (strict: bool) (d: node) : GM bool :=
        if is_simple d then gret false
        else if rp && is_c C_BinaryOp d then
          dopv <- gattr "op" d ;; dop <- as_str dopv ;;
          match prec_lookup_s dop, prec_lookup_s op with
          | Some pd, Some pn => gret (negb (if strict then Nat.ltb pn pd else Nat.leb pn pd))
          | _, _ => gcrash      (* KeyError *)
          end
        else gret true in
      ls <- visit_expr f l ;; lc <- cond false l ;;
      rs <- visit_expr f r ;; rc <- cond true r ;;
      gret ((if lc then s "(" ++ ls ++ s ")" else ls) ++ s " " ++ op ++ s " " ++ (if rc then s "(" ++ rs ++ s ")" else rs))
    | C_Assignment =>
      rv <- gattr "rvalue" n ;; rs <- visit_expr f rv ;;
      let rs' := if is_c C_Assignment rv then s "(" ++ rs ++ s ")" else rs in
      lv <- gattr "lvalue" n ;; ls <- visit f lv ;;
      opv <- gattr "op" n ;; op <- as_str opv ;;
      gret (ls ++ s " " ++ op ++ s " " ++ rs')
    | C_IdentifierType => ns <- gattr "names" n ;; join_strs (s " ") ns
    | C_Decl => visit_decl f n false
    | C_DeclList =>
      dv <- gattr "decls" n ;; ds <- as_list dv ;;
      match ds with
      | [] => gcrash     (* IndexError *)
      | d0 :: rest =>
        a <- visit f d0 ;;
        match rest with
        | [] => gret a
        | _ => more <- mapM (fun d => if is_c C_Decl d then visit_decl f d true else gcrash) rest ;;
               gret (a ++ s ", " ++ join_str (s ", ") more)
        end
      end
    | C_Typedef =>
      st <- gattr "storage" n ;;
      pre <- (if truthy_v st then (x <- join_strs (s " ") st ;; gret (x ++ s " ")) else gret []) ;;
      ty <- gattr "type" n ;; t <- generate_type f ty [] true ;; gret (pre ++ t)
    | C_Cast =>
      tt' <- gattr "to_type" n ;; t <- generate_type f tt' [] false ;;
      e <- gattr "expr" n ;; x <- paren_unless_simple f e ;;
      gret (s "(" ++ t ++ s ")" ++ s " " ++ x)
    | C_ExprList | C_InitList =>
      ev <- gattr "exprs" n ;; es <- as_list ev ;;
      xs <- mapM (visit_expr f) es ;; gret (join_str (s ", ") xs)
    | C_Enum => sue f n (s "enum")
    | C_Alignas => a <- gattr "alignment" n ;; x <- visit f a ;; gret (s "_Alignas(" ++ x ++ s ")")
    | C_Enumerator =>
      ind <- make_indent ;;
      nm <- gattr "name" n ;; name <- as_str nm ;;
      v <- gattr "value" n ;;
      if truthy_v v then (x <- visit_expr f v ;; gret (ind ++ name ++ s " = " ++ x ++ s "," ++ [10]))
      else gret (ind ++ name ++ s "," ++ [10])
    | C_FuncDef =>
      d <- gattr "decl" n ;; decl <- visit f d ;;
      set_indent 0 ;;;
      b <- gattr "body" n ;; body <- visit f b ;;
      pd <- gattr "param_decls" n ;;
      if truthy_v pd then
        (ps <- as_list pd ;; xs <- mapM (visit f) ps ;;
         gret (decl ++ [10] ++ join_str (s ";" ++ [10]) xs ++ s ";" ++ [10] ++ body ++ [10]))
      else gret (decl ++ [10] ++ body ++ [10])
    | C_FileAST =>
      ev <- gattr "ext" n ;; es <- as_list ev ;;
      xs <- mapM (fun e => x <- visit f e ;;
                           if is_c C_FuncDef e then gret x
                           else if is_c C_Pragma e then gret (x ++ [10])
                           else gret (x ++ s ";" ++ [10])) es ;;
      gret (concat_str xs)
    | C_Compound =>
      ind <- make_indent ;;
      add_indent 2 ;;;
      bi <- gattr "block_items" n ;;
      body <- (if truthy_v bi then (l <- as_list bi ;; xs <- mapM (fun x => generate_stmt f x false) l ;; gret (concat_str xs)) else gret []) ;;
      add_indent (-2) ;;;
      ind2 <- make_indent ;;
      gret (ind ++ s "{" ++ [10] ++ body ++ ind2 ++ s "}" ++ [10])
    | C_CompoundLiteral =>
      t <- gattr "type" n ;; a <- visit f t ;; i <- gattr "init" n ;; b <- visit f i ;;
      gret (s "(" ++ a ++ s "){" ++ b ++ s "}")
    | C_EmptyStatement => gret (s ";")
    | C_ParamList => pv <- gattr "params" n ;; ps <- as_list pv ;; xs <- mapM (visit f) ps ;; gret (join_str (s ", ") xs)
    | C_Return =>
      e <- gattr "expr" n ;;
      if truthy_v e then (x <- visit f e ;; gret (s "return" ++ s " " ++ x ++ s ";")) else gret (s "return;")
    | C_Break => gret (s "break;")
    | C_Continue => gret (s "continue;")
    | C_TernaryOp =>
      c0 <- gattr "cond" n ;; a <- visit_expr f c0 ;;
      t <- gattr "iftrue" n ;; b <- visit_expr f t ;;
      e <- gattr "iffalse" n ;; c1 <- visit_expr f e ;;
      gret (s "(" ++ a ++ s ") ? (" ++ b ++ s ") : (" ++ c1 ++ s ")")
    | C_If =>
      c0 <- gattr "cond" n ;;
      cs <- (if truthy_v c0 then visit f c0 else gret []) ;;
      t <- gattr "iftrue" n ;; ts <- generate_stmt f t true ;;
      e <- gattr "iffalse" n ;;
      if truthy_v e then
        (ind <- make_indent ;; es <- generate_stmt f e true ;;
         gret (s "if (" ++ cs ++ s ")" ++ [10] ++ ts ++ ind ++ s "else" ++ [10] ++ es))
      else gret (s "if (" ++ cs ++ s ")" ++ [10] ++ ts)
    | C_For =>
      i <- gattr "init" n ;; is' <- (if truthy_v i then visit f i else gret []) ;;
      c0 <- gattr "cond" n ;; cs <- (if truthy_v c0 then (x <- visit f c0 ;; gret (s " " ++ x)) else gret []) ;;
      nx <- gattr "next" n ;; ns <- (if truthy_v nx then (x <- visit f nx ;; gret (s " " ++ x)) else gret []) ;;
      st <- gattr "stmt" n ;; ss <- generate_stmt f st true ;;
      gret (s "for (" ++ is' ++ s ";" ++ cs ++ s ";" ++ ns ++ s ")" ++ [10] ++ ss)
    | C_While =>
      c0 <- gattr "cond" n ;; cs <- (if truthy_v c0 then visit f c0 else gret []) ;;
      st <- gattr "stmt" n ;; ss <- generate_stmt f st true ;;
      gret (s "while (" ++ cs ++ s ")" ++ [10] ++ ss)
    | C_DoWhile =>
      st <- gattr "stmt" n ;; ss <- generate_stmt f st true ;;
      ind <- make_indent ;;
      c0 <- gattr "cond" n ;; cs <- (if truthy_v c0 then visit f c0 else gret []) ;;
      gret (s "do" ++ [10] ++ ss ++ ind ++ s "while (" ++ cs ++ s ");")
    | C_StaticAssert =>
      c0 <- gattr "cond" n ;; cs <- visit_expr f c0 ;;
      m <- gattr "message" n ;;
      ms <- (if truthy_v m then (x <- visit f m ;; gret (s "," ++ x)) else gret []) ;;
      gret (s "_Static_assert(" ++ cs ++ ms ++ s ")")
    | C_Switch =>
      c0 <- gattr "cond" n ;; cs <- visit f c0 ;;
      st <- gattr "stmt" n ;; ss <- generate_stmt f st true ;;
      gret (s "switch (" ++ cs ++ s ")" ++ [10] ++ ss)
    | C_Case =>
      e <- gattr "expr" n ;; es <- visit_expr f e ;;
      sv <- gattr "stmts" n ;; sl <- as_list sv ;;
      xs <- mapM (fun x => generate_stmt f x true) sl ;;
      gret (s "case " ++ es ++ s ":" ++ [10] ++ concat_str xs)
    | C_Default =>
      sv <- gattr "stmts" n ;; sl <- as_list sv ;;
      xs <- mapM (fun x => generate_stmt f x true) sl ;;
      gret (s "default:" ++ [10] ++ concat_str xs)
    | C_Label =>
      nm <- gattr "name" n ;; name <- as_str nm ;;
      st <- gattr "stmt" n ;; ss <- generate_stmt f st false ;;
      gret (name ++ s ":" ++ [10] ++ ss)
    | C_Goto => nm <- gattr "name" n ;; name <- as_str nm ;; gret (s "goto " ++ name ++ s ";")
    | C_EllipsisParam => gret (s "...")
    | C_Struct => sue f n (s "struct")
    | C_Union => sue f n (s "union")
    | C_Typename => t <- gattr "type" n ;; generate_type f t [] true
    | C_NamedInitializer =>
      nv <- gattr "name" n ;; ns <- as_list nv ;;
      ds <- mapM (fun d => if is_c C_ID d then (x <- gattr "name" d ;; y <- as_str x ;; gret (s "." ++ y))
                           else (x <- visit_expr f d ;; gret (s "[" ++ x ++ s "]"))) ns ;;
      e <- gattr "expr" n ;; es <- visit_expr f e ;;
      gret (concat_str ds ++ s " = " ++ es)
    | C_FuncDecl => generate_type f n [] true
    | C_ArrayDecl | C_TypeDecl | C_PtrDecl => generate_type f n [] false
    | _ =>
      (* generic_visit: "".join(visit(c) for c_name, c in node.children()) *)
      (* the nodes children() reports are exactly the ones iteration yields (NodeProofs.children_iter_agree);
         the labels are not used here *)
      match iter C n with
      | Some ch => xs <- mapM (visit f) ch ;; gret (concat_str xs)
      | None => gcrash
      end
    end
  end end
with visit_expr (fuel: nat) (n: node) {struct fuel} : GM str :=
  match fuel with O => gfuel | S f =>
    if is_c C_InitList n then (x <- visit f n ;; gret (s "{" ++ x ++ s "}"))
    else if is_c C_ExprList n || is_c C_Compound n then (x <- visit f n ;; gret (s "(" ++ x ++ s ")"))
    else visit f n
  end
with paren_unless_simple (fuel: nat) (n: node) {struct fuel} : GM str :=
  match fuel with O => gfuel | S f =>
    x <- visit_expr f n ;;
    if is_simple n then gret x else gret (s "(" ++ x ++ s ")")
  end
with visit_decl (fuel: nat) (n: node) (no_type: bool) {struct fuel} : GM str :=
  match fuel with O => gfuel | S f =>
    s0 <- (if no_type then gattr "name" n else (x <- generate_decl f n ;; gret (VStr x))) ;;
    bs <- gattr "bitsize" n ;;
    s1 <- (if truthy_v bs then (a <- as_str s0 ;; x <- visit_expr f bs ;; gret (VStr (a ++ s " : " ++ x))) else gret s0) ;;
    i <- gattr "init" n ;;
    s2 <- (if truthy_v i then (a <- as_str s1 ;; x <- visit_expr f i ;; gret (VStr (a ++ s " = " ++ x))) else gret s1) ;;
    as_str s2
  end
with generate_stmt (fuel: nat) (n: node) (addi: bool) {struct fuel} : GM str :=
  match fuel with O => gfuel | S f =>
    (if addi then add_indent 2 else gret tt) ;;;
    ind <- make_indent ;;
    (if addi then add_indent (-2) else gret tt) ;;;
    if stmt_with_semicolon n then (x <- visit f n ;; gret (ind ++ x ++ s ";" ++ [10]))
    else if is_c C_Compound n then visit f n
    else if is_c C_If n then (x <- visit f n ;; gret (ind ++ x))
    else (x <- visit f n ;; gret (ind ++ x ++ [10]))
  end
with generate_decl (fuel: nat) (n: node) {struct fuel} : GM str :=
  match fuel with O => gfuel | S f =>
    fs <- gattr "funcspec" n ;;
    a <- (if truthy_v fs then (x <- join_strs (s " ") fs ;; gret (x ++ s " ")) else gret []) ;;
    st <- gattr "storage" n ;;
    b <- (if truthy_v st then (x <- join_strs (s " ") st ;; gret (x ++ s " ")) else gret []) ;;
    al <- gattr "align" n ;;
    c0 <- (if truthy_v al then
             match al with
             | VList (a0 :: _) => x <- visit f a0 ;; gret (x ++ s " ")
             | _ => gcrash
             end
           else gret []) ;;
    ty <- gattr "type" n ;;
    t <- generate_type f ty [] true ;;
    gret (a ++ b ++ c0 ++ t)
  end
with generate_type (fuel: nat) (n: node) (modifiers: list node) (emit_declname: bool) {struct fuel} : GM str :=
  match fuel with O => gfuel | S f =>
    if is_c C_TypeDecl n then
      q <- gattr "quals" n ;;
      qs <- (if truthy_v q then (x <- join_strs (s " ") q ;; gret (x ++ s " ")) else gret []) ;;
      ty <- gattr "type" n ;; ts0 <- visit f ty ;;
      let ts := if is_c C_Typename ty then s "_Atomic(" ++ ts0 ++ s ")" else ts0 in    (* the _Atomic(type-name) specifier *)
      dn <- gattr "declname" n ;;
      nstr0 <- (if truthy_v dn && emit_declname then as_str dn else gret []) ;;
      nstr <- (fix go (prev: option node) (ms: list node) (nstr: str) : GM str :=
                 match ms with
                 | [] => gret nstr
                 | md :: r =>
                   let prev_ptr := match prev with Some p => is_c C_PtrDecl p | None => false end in
                   if is_c C_ArrayDecl md then
                     let n1 := if prev_ptr then s "(" ++ nstr ++ s ")" else nstr in
                     dq <- gattr "dim_quals" md ;;
                     dqs <- (if truthy_v dq then (x <- join_strs (s " ") dq ;; gret (x ++ s " ")) else gret []) ;;
                     dm <- gattr "dim" md ;;
                     ds <- (match dm with VNone => gret [] | _ => visit_expr f dm end) ;;
                     go (Some md) r (n1 ++ s "[" ++ dqs ++ ds ++ s "]")
                   else if is_c C_FuncDecl md then
                     let n1 := if prev_ptr then s "(" ++ nstr ++ s ")" else nstr in
                     ar <- gattr "args" md ;;
                     as' <- (match ar with VNone => gret [] | _ => visit f ar end) ;;
                     go (Some md) r (n1 ++ s "(" ++ as' ++ s ")")
                   else if is_c C_PtrDecl md then
                     pq <- gattr "quals" md ;;
                     if truthy_v pq then
                       (qq <- join_strs (s " ") pq ;;
                        go (Some md) r (s "* " ++ qq ++ (match nstr with [] => [] | _ => s " " ++ nstr end)))
                     else go (Some md) r (s "*" ++ nstr)
                   else go (Some md) r nstr
                 end) None modifiers nstr0 ;;
      gret (qs ++ ts ++ (match nstr with [] => [] | _ => s " " ++ nstr end))
    else if is_c C_Decl n then (t <- gattr "type" n ;; generate_decl f t)
    else if is_c C_Typename n then (t <- gattr "type" n ;; generate_type f t [] emit_declname)
    else if is_c C_IdentifierType n then (ns <- gattr "names" n ;; x <- join_strs (s " ") ns ;; gret (x ++ s " "))
    else if is_c C_ArrayDecl n || is_c C_PtrDecl n || is_c C_FuncDecl n then
      (t <- gattr "type" n ;; generate_type f t (modifiers ++ [n]) emit_declname)
    else visit f n
  end
with sue (fuel: nat) (n: node) (name: str) {struct fuel} : GM str :=
  match fuel with O => gfuel | S f =>
    let is_enum := str_eqb name (s "enum") in
    members <- (if is_enum then
                  (v <- gattr "values" n ;;
                   match v with VNone => gret None | _ => e <- gattr "enumerators" v ;; gret (Some e) end)
                else (d <- gattr "decls" n ;; match d with VNone => gret None | _ => gret (Some d) end)) ;;
    nm <- gattr "name" n ;;
    nms <- (if truthy_v nm then as_str nm else gret []) ;;
    let head := name ++ s " " ++ nms in
    match members with
    | None => gret head
    | Some mv =>
      ind <- make_indent ;;
      add_indent 2 ;;;
      ml <- as_list mv ;;
      body <- (if is_enum then
                 (xs <- mapM (visit f) ml ;;
                  let all := concat_str xs in
                  gret (firstn (nsub (length all) 2) all ++ [10]))
               else (xs <- mapM (fun x => generate_stmt f x false) ml ;; gret (concat_str xs))) ;;
      add_indent (-2) ;;;
      ind2 <- make_indent ;;
      gret (head ++ [10] ++ ind ++ s "{" ++ [10] ++ body ++ ind2 ++ s "}")
    end
  end.

Definition generate (fuel: nat) (n: node) : gres (str * Z) := visit fuel n 0%Z.
End GEN.
