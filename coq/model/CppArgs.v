(* Model of pycparser/__init__.py: preprocess_file's command-line assembly and parse_file's pipeline. *)
From Coq Require Import List NArith Bool.
Import ListNotations.
From PV Require Import Regex Base.

Inductive cpp_args := ArgList (l: list str) | ArgStr (s: str).

Definition path_list (cpp_path: str) (args: cpp_args) (filename: str) : list str :=
  [cpp_path] ++ (match args with
                 | ArgList l => l
                 | ArgStr [] => []
                 | ArgStr s => [s]
                 end) ++ [filename].

(* parse_file f use_cpp = parser.parse(if use_cpp then preprocess f else read f, f) *)
Section Pipeline.
Variables (Text Ast : Type).
Variable run_cpp : list str -> Text.      (* check_output: a function of the argument list (assumption: cpp is deterministic) *)
Variable read_file : str -> Text.
Variable parse : Text -> str -> Ast.
Definition preprocess_file (filename cpp_path: str) (args: cpp_args) : Text := run_cpp (path_list cpp_path args filename).
Definition parse_file (filename: str) (use_cpp: bool) (cpp_path: str) (args: cpp_args) : Ast :=
  parse (if use_cpp then preprocess_file filename cpp_path args else read_file filename) filename.
End Pipeline.
