#!/bin/sh
# regenerate _CoqProject and Makefile from the .v files present
cd "$(dirname "$0")"
{
  echo "-R . PV"
  echo "-arg -w -arg -notation-overridden,-deprecated-hint-without-locality,-deprecated-instance-without-locality"
  find gen model spec proofs props extract -name '*.v' 2>/dev/null | sort
} > _CoqProject
coq_makefile -f _CoqProject -o Makefile >/dev/null
