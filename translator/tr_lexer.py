"""Translate the declarative content of pycparser/c_lexer.py into Coq.

Emits coq/gen/LexTables.v:
  * token kind enumeration (keywords, regex TOKEN rules, ID/TYPEID, fixed
    tokens, PPHASH/PPPRAGMA/PPPRAGMASTR)
  * the ordered regex rule table as Coq regex ASTs (via re._parser.parse)
  * fixed tokens, first-character buckets (as built by the module itself)
  * keyword map
  * _line_pattern, _pragma_pattern, _decimal_constant, _string_literal
  * Unicode tables \\d, \\W as used by Python's `re` on str patterns
Fail-closed on any unknown sre opcode or unexpected table shape.
"""
import sys, os, re, importlib
sys.path.insert(0, os.path.dirname(os.path.abspath(__file__)))
from common import *

sys.path.insert(0, REPO)
import re._parser as sre_parse
import re._constants as sre_c


def load():
    for m in [k for k in sys.modules if k.startswith("pycparser")]:
        del sys.modules[m]
    return importlib.import_module("pycparser.c_lexer")


_digit_re = re.compile(r"\d")
_nonword_re = re.compile(r"\W")


def in_items_to_cset(items):
    neg = False
    parts = []  # coq expressions of type list (N*N)
    lits = []
    for op, av in items:
        if op is sre_c.NEGATE:
            neg = True
        elif op is sre_c.LITERAL:
            lits.append((av, av))
        elif op is sre_c.RANGE:
            lits.append((av[0], av[1]))
        elif op is sre_c.CATEGORY:
            if av is sre_c.CATEGORY_DIGIT:
                parts.append("digit_ranges")
            elif av is sre_c.CATEGORY_NOT_WORD:
                parts.append("nonword_ranges")
            else:
                raise TranslateError(f"unknown category {av}")
        else:
            raise TranslateError(f"unknown IN item {op}")
    if lits:
        parts.insert(0, cranges(merge_ranges(lits)))
    if not parts:
        parts = ["(@nil (N*N))"]
    return f"(CSet {'true' if neg else 'false'} ({' ++ '.join(parts)}))"


def seq(parts):
    if not parts:
        return "Eps"
    if len(parts) == 1:
        return parts[0]
    return "(Seq " + parts[0] + " " + seq(parts[1:]) + ")"


def alt(parts):
    if len(parts) == 1:
        return parts[0]
    return "(Alt " + parts[0] + " " + alt(parts[1:]) + ")"


def nullable_tree(tree):
    """Can this sre parse tree match the empty string? (for the star-body check)"""
    for op, av in tree:
        if op in (sre_c.LITERAL, sre_c.IN, sre_c.NOT_LITERAL, sre_c.ANY):
            return False
        if op is sre_c.SUBPATTERN:
            if not nullable_tree(av[3]):
                return False
        elif op is sre_c.BRANCH:
            if not any(nullable_tree(b) for b in av[1]):
                return False
        elif op is sre_c.MAX_REPEAT:
            lo, hi, body = av
            if lo > 0 and not nullable_tree(body):
                return False
        elif op in (sre_c.ASSERT_NOT, sre_c.AT):
            pass
        else:
            raise TranslateError(f"unknown opcode {op}")
    return True


def tree_to_re(tree):
    parts = []
    for op, av in tree:
        if op is sre_c.LITERAL:
            parts.append(f"(Chr (CSet false {cranges([(av, av)])}))")
        elif op is sre_c.IN:
            parts.append(f"(Chr {in_items_to_cset(av)})")
        elif op is sre_c.SUBPATTERN:
            group, add_flags, del_flags, p = av
            if add_flags or del_flags:
                raise TranslateError("flags in subpattern")
            parts.append(tree_to_re(p))
        elif op is sre_c.BRANCH:
            _, branches = av
            parts.append(alt([tree_to_re(b) for b in branches]))
        elif op is sre_c.MAX_REPEAT:
            lo, hi, body = av
            b = tree_to_re(body)
            if hi is sre_c.MAXREPEAT:
                if nullable_tree(body):
                    raise TranslateError("nullable star body (semantics not modelled)")
                parts.extend([b] * lo)
                parts.append(f"(Star {b})")
            else:
                if hi < lo:
                    raise TranslateError("bad repeat bounds")
                parts.extend([b] * lo)
                # greedy optional tail: (b (b (b)?)?)?
                opt = None
                for _ in range(hi - lo):
                    inner = b if opt is None else f"(Seq {b} {opt})"
                    opt = f"(Alt {inner} Eps)"
                if opt is not None:
                    parts.append(opt)
        elif op is sre_c.ASSERT_NOT:
            direction, p = av
            if direction != 1:
                raise TranslateError("lookbehind not modelled")
            parts.append(f"(NotAhead {tree_to_re(p)})")
        elif op is sre_c.AT:
            if av is sre_c.AT_END:
                parts.append("AtEnd")
            else:
                raise TranslateError(f"unknown AT {av}")
        else:
            raise TranslateError(f"unknown sre opcode {op}")
    return seq(parts)


def pattern_to_re(pat, flags=0):
    if flags & ~re.UNICODE:
        raise TranslateError(f"unexpected regex flags {flags}")
    return tree_to_re(sre_parse.parse(pat))


def main(outdir):
    L = load()
    out = []
    w = out.append
    w("(* GENERATED by translator/tr_lexer.py from pycparser/c_lexer.py -- do not edit *)")
    w("From Coq Require Import List NArith Bool.")
    w("Import ListNotations.")
    w("From PV Require Import Regex UnicodeTables.")
    w("Open Scope N_scope.")
    w("")
    u = []
    u.append("(* GENERATED by translator/tr_lexer.py from the running Python's Unicode database -- do not edit *)")
    u.append("From Coq Require Import List NArith.")
    u.append("Import ListNotations.")
    u.append("Open Scope N_scope.")
    # Unicode tables, as Python's re / str see them
    u.append(f"Definition digit_ranges : list (N*N) := {cranges(ranges_of(lambda c: _digit_re.match(chr(c)) is not None))}.")
    u.append(f"Definition nonword_ranges : list (N*N) := {cranges(ranges_of(lambda c: _nonword_re.match(chr(c)) is not None))}.")
    u.append(f"Definition printable_ranges : list (N*N) := {cranges(ranges_of(lambda c: chr(c).isprintable()))}.")
    write_if_changed(os.path.join(outdir, "UnicodeTables.v"), "\n".join(u) + "\n")

    # --- kinds -------------------------------------------------------------
    kinds = []
    def addk(k):
        if k not in kinds:
            kinds.append(k)
    if not isinstance(L._keywords, tuple):
        raise TranslateError("_keywords is not a tuple")
    for k in L._keywords:
        addk(k)
    rules = L._regex_rules
    if not isinstance(rules, list):
        raise TranslateError("_regex_rules is not a list")
    for r in rules:
        if r.action.name == "TOKEN":
            addk(r.tok_type)
        elif r.action.name == "ID":
            addk("ID")
            addk("TYPEID")
        elif r.action.name != "ERROR":
            raise TranslateError(f"unknown action {r.action}")
    for ft in L._fixed_tokens:
        addk(ft.tok_type)
    for k in ("PPHASH", "PPPRAGMA", "PPPRAGMASTR"):
        addk(k)
    w("Inductive kind : Set :=")
    for k in kinds:
        w(f"| {kname(k)}")
    w(".")
    w("Definition kind_index (k: kind) : N :=\n  match k with")
    for i, k in enumerate(kinds):
        w(f"  | {kname(k)} => {i}")
    w("  end.")
    w("Definition kind_eqb (a b: kind) : bool := N.eqb (kind_index a) (kind_index b).")
    w("Definition kind_name (k: kind) : list N :=\n  match k with")
    for k in kinds:
        w(f"  | {kname(k)} => {cstr(k)}")
    w("  end.")
    w("Definition all_kinds : list kind := [" + "; ".join(kname(k) for k in kinds) + "].")
    w("")

    # --- keyword map ---------------------------------------------------------
    if not isinstance(L._keyword_map, dict):
        raise TranslateError("_keyword_map is not a dict")
    w("Definition keyword_map : list (list N * kind) := [")
    items = list(L._keyword_map.items())
    for i, (spelling, name) in enumerate(items):
        if name not in kinds:
            raise TranslateError(f"keyword {name} not a kind")
        w(f"  ({cstr(spelling)}, {kname(name)})" + (";" if i + 1 < len(items) else ""))
    w("].")
    w("")

    # --- regex rules ---------------------------------------------------------
    w("Inductive action := A_TOKEN (k: kind) | A_ID | A_ERROR (msg: option (list N)).")
    w("Record rule := { rname : list N; rre : re; ract : action }.")
    names = []
    for r in rules:
        nm = "re_" + cident(r.tok_type)
        names.append(nm)
        w(f"Definition {nm} : re := {pattern_to_re(r.regex_pattern)}.")
    w("Definition regex_rules : list rule := [")
    for i, r in enumerate(rules):
        if r.action.name == "TOKEN":
            act = f"A_TOKEN {kname(r.tok_type)}"
        elif r.action.name == "ID":
            act = "A_ID"
        else:
            act = "A_ERROR " + ("None" if r.error_message is None else f"(Some {cstr(r.error_message)})")
        w(f"  {{| rname := {cstr(r.tok_type)}; rre := {names[i]}; ract := {act} |}}" + (";" if i + 1 < len(rules) else ""))
    w("].")
    # the master regex must be exactly the alternation of the rules, in order
    expected = "|".join(f"(?P<{r.tok_type}>{r.regex_pattern})" for r in rules)
    if L._regex_master.pattern != expected or (L._regex_master.flags & ~re.UNICODE):
        raise TranslateError("_regex_master is not the ordered alternation of _regex_rules")
    if set(L._regex_actions) != {r.tok_type for r in rules} or any(
        L._regex_actions[r.tok_type] != (r.action, r.error_message) for r in rules):
        raise TranslateError("_regex_actions disagrees with _regex_rules")
    w("")

    # --- fixed tokens ----------------------------------------------------------
    w("Definition fixed_tokens : list (kind * list N) := [")
    fts = L._fixed_tokens
    for i, ft in enumerate(fts):
        w(f"  ({kname(ft.tok_type)}, {cstr(ft.literal)})" + (";" if i + 1 < len(fts) else ""))
    w("].")
    w("Definition fixed_by_first : list (N * list (kind * list N)) := [")
    bk = list(L._fixed_tokens_by_first.items())
    for i, (ch, bucket) in enumerate(bk):
        if len(ch) != 1:
            raise TranslateError("bucket key is not one character")
        ents = "; ".join(f"({kname(e.tok_type)}, {cstr(e.literal)})" for e in bucket)
        w(f"  ({ord(ch)}, [{ents}])" + (";" if i + 1 < len(bk) else ""))
    w("].")
    w("")

    # --- directive patterns --------------------------------------------------------
    w(f"Definition re_line_pattern : re := {pattern_to_re(L._line_pattern.pattern, L._line_pattern.flags)}.")
    w(f"Definition re_pragma_pattern : re := {pattern_to_re(L._pragma_pattern.pattern, L._pragma_pattern.flags)}.")
    w(f"Definition re_decimal_constant : re := {pattern_to_re(L._decimal_constant)}.")
    w(f"Definition re_string_literal : re := {pattern_to_re(L._string_literal)}.")
    w("")
    text = "\n".join(out) + "\n"
    return write_if_changed(os.path.join(outdir, "LexTables.v"), text)


if __name__ == "__main__":
    try:
        main(sys.argv[1])
    except TranslateError as e:
        print("TRANSLATE-ERROR tr_lexer:", e)
        sys.exit(3)
