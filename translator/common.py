"""Shared helpers for the translators (stdlib only).

Every translator is fail-closed: anything it does not understand raises
TranslateError, which the check reports as a broken tie.
"""
import os, sys

REPO = os.environ.get("VERIF_REPO", "/repo")


class TranslateError(Exception):
    pass


def cstr(s):
    """Python str -> Coq term of type `list N` (code points)."""
    if not s:
        return "(@nil N)"
    return "[" + "; ".join(str(ord(c)) for c in s) + "]%N"


def cident(s):
    """Token/rule name -> Coq identifier suffix."""
    out = []
    for ch in s:
        if ch.isalnum() or ch == "_":
            out.append(ch)
        else:
            raise TranslateError(f"unexpected character in name {s!r}")
    return "".join(out)


def kname(s):
    """Token type string -> Coq constructor name of the generated `kind` enumeration.
    Leading underscores become 'u' (a double underscore is reserved by extraction)."""
    s = cident(s)
    n = len(s) - len(s.lstrip("_"))
    return "K_" + "u" * n + s[n:]


def ranges_of(pred, limit=0x110000):
    """Materialise a predicate on code points as a list of inclusive ranges."""
    rs = []
    start = None
    for c in range(limit):
        if pred(c):
            if start is None:
                start = c
        else:
            if start is not None:
                rs.append((start, c - 1))
                start = None
    if start is not None:
        rs.append((start, limit - 1))
    return rs


def merge_ranges(rs):
    rs = sorted(rs)
    out = []
    for a, b in rs:
        if out and a <= out[-1][1] + 1:
            out[-1] = (out[-1][0], max(out[-1][1], b))
        else:
            out.append((a, b))
    return out


def cranges(rs):
    if not rs:
        return "(@nil (N*N))"
    return "[" + "; ".join(f"({a},{b})" for a, b in rs) + "]%N"


def write_if_changed(path, text):
    old = None
    if os.path.exists(path):
        with open(path) as f:
            old = f.read()
    if old != text:
        with open(path, "w") as f:
            f.write(text)
        return True
    return False
