"""Static inventory of mutable state (gen/StateFacts.v), read with Python's ast:
 - instance attributes assigned / mutated in each class, and by which method
 - what CParser.parse() and CLexer.input()/_init_state() (re)assign before doing anything else
 - writes to module-level / class-level / default-argument objects from inside functions
Fail-closed where a reset sequence has an unexpected shape."""
import ast, os, sys
sys.path.insert(0, os.path.dirname(os.path.abspath(__file__)))
from common import *

MUTATORS = {"append", "extend", "pop", "sort", "update", "setdefault", "insert", "remove", "clear", "add", "discard", "popitem", "reverse", "__setitem__", "__delitem__"}


PROCESS_GLOBAL_CALLS = {"sys.setrecursionlimit", "sys.setswitchinterval", "sys.settrace", "sys.setprofile", "gc.disable", "gc.enable", "gc.freeze",
                        "signal.signal", "signal.setitimer", "signal.alarm", "locale.setlocale", "random.seed", "os.chdir", "os.putenv", "os.umask",
                        "warnings.simplefilter", "warnings.filterwarnings", "threading.setprofile", "threading.settrace", "re.purge"}


def self_attr(n):
    return n.attr if isinstance(n, ast.Attribute) and isinstance(n.value, ast.Name) and n.value.id == "self" else None


def root_self_attr(n):
    """self.X, self.X[...], self.X.y ... -> X"""
    while isinstance(n, (ast.Subscript, ast.Attribute)):
        a = self_attr(n)
        if a is not None:
            return a
        n = n.value
    return None


def class_attr_writes(cls):
    """attribute -> set of methods assigning or mutating it"""
    out = {}
    for fn in cls.body:
        if not isinstance(fn, (ast.FunctionDef, ast.AsyncFunctionDef)):
            continue
        for node in ast.walk(fn):
            targets = []
            if isinstance(node, ast.Assign):
                targets = node.targets
            elif isinstance(node, (ast.AugAssign, ast.AnnAssign)):
                targets = [node.target]
            elif isinstance(node, ast.Delete):
                targets = node.targets
            for t in targets:
                for tt in (t.elts if isinstance(t, (ast.Tuple, ast.List)) else [t]):
                    a = root_self_attr(tt)
                    if a is not None:
                        out.setdefault(a, set()).add(fn.name)
            if isinstance(node, ast.Call) and isinstance(node.func, ast.Attribute) and node.func.attr in MUTATORS:
                a = root_self_attr(node.func.value)
                if a is not None:
                    out.setdefault(a, set()).add(fn.name)
    return out


def module_level_names(tree):
    names = set()
    for st in tree.body:
        if isinstance(st, ast.Assign):
            for t in st.targets:
                for tt in (t.elts if isinstance(t, (ast.Tuple, ast.List)) else [t]):
                    if isinstance(tt, ast.Name):
                        names.add(tt.id)
        elif isinstance(st, ast.AnnAssign) and isinstance(st.target, ast.Name):
            names.add(st.target.id)
        elif isinstance(st, (ast.ClassDef, ast.FunctionDef)):
            names.add(st.name)
        elif isinstance(st, (ast.For, ast.If, ast.With)):
            for n in ast.walk(st):
                if isinstance(n, ast.Name) and isinstance(n.ctx, ast.Store):
                    names.add(n.id)
    return names


def global_writes(tree, modname):
    """writes from inside function bodies to objects that outlive the call"""
    glob = module_level_names(tree)
    classes = {st.name for st in tree.body if isinstance(st, ast.ClassDef)}
    out = []

    def scan_fn(fn, qual, self_aliases=frozenset()):
        params = {a.arg for a in fn.args.args + fn.args.kwonlyargs + fn.args.posonlyargs}
        if fn.args.vararg:
            params.add(fn.args.vararg.arg)
        if fn.args.kwarg:
            params.add(fn.args.kwarg.arg)
        # names with mutable default objects
        mutable_defaults = set()
        pos = fn.args.posonlyargs + fn.args.args
        for a, d in zip(pos[len(pos) - len(fn.args.defaults):], fn.args.defaults):
            if isinstance(d, (ast.List, ast.Dict, ast.Set, ast.Call)):
                mutable_defaults.add(a.arg)
        local = set(params)
        for n in ast.walk(fn):
            if isinstance(n, ast.Name) and isinstance(n.ctx, ast.Store):
                local.add(n.id)
        declared_global = set()
        for n in ast.walk(fn):
            if isinstance(n, ast.Global):   # nonlocal names are locals of the enclosing call
                declared_global |= set(n.names)
        for g in declared_global:
            out.append(f"{modname}.{qual}: global {g}")

        def is_outliving0(name):
            return (name in glob and name not in local) or name in mutable_defaults or name in declared_global

        # local names bound to (parts of) objects that outlive the call:  x = GLOBAL / x = GLOBAL[k] / x = cls.attr / x = type(self).attr
        aliases = set()

        def rooted_outliving(v):
            base = v
            while isinstance(base, (ast.Subscript, ast.Attribute)):
                if isinstance(base, ast.Attribute) and ast.unparse(base.value) in ("self.__class__", "type(self)", "cls"):
                    return True
                base = base.value
            if isinstance(base, ast.Call) and isinstance(base.func, ast.Attribute) and base.func.attr in ("get", "setdefault"):
                return rooted_outliving(base.func.value)
            return isinstance(base, ast.Name) and (is_outliving0(base.id) or base.id in aliases or base.id in classes or base.id == "cls") \
                and not (isinstance(v, ast.Name) and v.id in classes)
        changed = True
        while changed:
            changed = False
            for n in ast.walk(fn):
                if isinstance(n, ast.Assign) and rooted_outliving(n.value):
                    for t in n.targets:
                        if isinstance(t, ast.Name) and t.id not in aliases and t.id in local and t.id not in params:
                            aliases.add(t.id)
                            changed = True
                elif isinstance(n, ast.AnnAssign) and n.value is not None and rooted_outliving(n.value):
                    if isinstance(n.target, ast.Name) and n.target.id not in aliases and n.target.id in local:
                        aliases.add(n.target.id)
                        changed = True

        def is_outliving(name):
            return is_outliving0(name) or name in aliases

        for n in ast.walk(fn):
            tg = []
            if isinstance(n, ast.Assign):
                tg = n.targets
            elif isinstance(n, (ast.AugAssign, ast.AnnAssign)):
                tg = [n.target]
            elif isinstance(n, ast.Delete):
                tg = n.targets
            for t in tg:
                for tt in (t.elts if isinstance(t, (ast.Tuple, ast.List)) else [t]):
                    base = tt
                    while isinstance(base, (ast.Subscript, ast.Attribute)):
                        base = base.value
                    if isinstance(tt, (ast.Subscript, ast.Attribute)) and isinstance(base, ast.Name):
                        if is_outliving(base.id) or base.id in classes or base.id == "cls":
                            out.append(f"{modname}.{qual}: writes {ast.unparse(tt)}")
                    if isinstance(tt, ast.Attribute) and isinstance(tt.value, ast.Call) and ast.unparse(tt.value.func) in ("type", "self.__class__"):
                        out.append(f"{modname}.{qual}: writes {ast.unparse(tt)}")
                    if isinstance(tt, ast.Attribute) and ast.unparse(tt.value) == "self.__class__":
                        out.append(f"{modname}.{qual}: writes {ast.unparse(tt)}")
            if isinstance(n, ast.Call) and isinstance(n.func, ast.Attribute) and n.func.attr in MUTATORS:
                base = n.func.value
                while isinstance(base, (ast.Subscript, ast.Attribute)):
                    base = base.value
                if isinstance(base, ast.Name) and (is_outliving(base.id) or base.id in classes or base.id == "cls"):
                    out.append(f"{modname}.{qual}: mutates {ast.unparse(n.func.value)} via .{n.func.attr}")
            # writes THROUGH an instance attribute that was bound to a module-level object (self.x = GLOBAL ... self.x[k] = v)
            if self_aliases:
                cands = []
                if isinstance(n, ast.Assign):
                    cands = [t_ for t_ in n.targets if isinstance(t_, (ast.Subscript, ast.Attribute))]
                elif isinstance(n, (ast.AugAssign, ast.AnnAssign)) and isinstance(n.target, (ast.Subscript, ast.Attribute)):
                    cands = [n.target]
                elif isinstance(n, ast.Delete):
                    cands = [t_ for t_ in n.targets if isinstance(t_, (ast.Subscript, ast.Attribute))]
                elif isinstance(n, ast.Call) and isinstance(n.func, ast.Attribute) and n.func.attr in MUTATORS:
                    cands = [ast.Attribute(value=n.func.value, attr="__mutated__", ctx=ast.Load())]
                for t_ in cands:
                    inner = t_.value          # the object written into
                    chain = inner
                    while isinstance(chain, (ast.Subscript, ast.Attribute)) and not (isinstance(chain, ast.Attribute) and isinstance(chain.value, ast.Name) and chain.value.id == "self"):
                        chain = chain.value
                    if isinstance(chain, ast.Attribute) and isinstance(chain.value, ast.Name) and chain.value.id == "self" and chain.attr in self_aliases:
                        out.append(f"{modname}.{qual}: writes into self.{chain.attr} (bound to a module-level object)")
            # calls that change process-wide interpreter state
            if isinstance(n, ast.Call) and ast.unparse(n.func) in PROCESS_GLOBAL_CALLS:
                out.append(f"{modname}.{qual}: calls {ast.unparse(n.func)}")
            if isinstance(n, ast.Call) and isinstance(n.func, ast.Name) and n.func.id == "setattr" and n.args:
                a0 = n.args[0]
                if not (isinstance(a0, ast.Name) and a0.id == "self"):
                    out.append(f"{modname}.{qual}: setattr on {ast.unparse(a0)}")

    for st in tree.body:
        if isinstance(st, ast.FunctionDef):
            scan_fn(st, st.name)
        elif isinstance(st, ast.ClassDef):
            # instance attributes bound somewhere in the class to a module-level object (not a class, not a function)
            funcs = {x.name for x in tree.body if isinstance(x, ast.FunctionDef)}
            sal = set()
            for n in ast.walk(st):
                if isinstance(n, ast.Assign) and isinstance(n.value, ast.Name) and n.value.id in glob and n.value.id not in classes and n.value.id not in funcs:
                    for t_ in n.targets:
                        if isinstance(t_, ast.Attribute) and isinstance(t_.value, ast.Name) and t_.value.id == "self":
                            sal.add(t_.attr)
            for m in st.body:
                if isinstance(m, ast.FunctionDef):
                    scan_fn(m, st.name + "." + m.name, frozenset(sal))
                    for inner in ast.walk(m):
                        if isinstance(inner, ast.FunctionDef) and inner is not m:
                            scan_fn(inner, st.name + "." + m.name + "." + inner.name, frozenset(sal))
    return sorted(set(out))


def leading_resets(fn):
    """the (re)assignments a method performs before anything else: list of ('attr', X) / ('call', 'self.a.b')"""
    out = []
    for st in fn.body:
        if isinstance(st, ast.Expr) and isinstance(st.value, ast.Constant) and isinstance(st.value.value, str):
            continue
        if isinstance(st, ast.Assign) and len(st.targets) == 1 and self_attr(st.targets[0]):
            out.append(("attr", self_attr(st.targets[0])))
        elif isinstance(st, ast.AnnAssign) and self_attr(st.target):
            out.append(("attr", self_attr(st.target)))
        elif isinstance(st, ast.Expr) and isinstance(st.value, ast.Call) and ast.unparse(st.value.func).startswith("self."):
            out.append(("call", ast.unparse(st.value.func)))
        else:
            break
    return out


def find_class(tree, name):
    for st in tree.body:
        if isinstance(st, ast.ClassDef) and st.name == name:
            return st
    raise TranslateError(f"class {name} not found")


def find_method(cls, name):
    for st in cls.body:
        if isinstance(st, ast.FunctionDef) and st.name == name:
            return st
    raise TranslateError(f"method {cls.name}.{name} not found")


def clist(strs_):
    return "[" + "; ".join(cstr(s) for s in strs_) + "]" if strs_ else "(@nil (list N))"


def main(outdir):
    pkg = os.path.join(REPO, "pycparser")
    trees = {m: ast.parse(open(os.path.join(pkg, m + ".py")).read()) for m in ["c_parser", "c_lexer", "c_generator", "c_ast", "ast_transforms", "__init__"]}
    P, L, G, A = trees["c_parser"], trees["c_lexer"], trees["c_generator"], trees["c_ast"]
    cparser, tstream = find_class(P, "CParser"), find_class(P, "_TokenStream")
    clexer, cgen, visitor = find_class(L, "CLexer"), find_class(G, "CGenerator"), find_class(A, "NodeVisitor")
    w = ["(* GENERATED by translator/tr_state.py (static read of pycparser/*.py) -- do not edit *)",
         "From Coq Require Import List NArith.", "Import ListNotations.", "From PV Require Import Regex.", "Open Scope N_scope.", ""]

    def emit_attrs(name, cls):
        wr = class_attr_writes(cls)
        w.append(f"Definition {name}_attrs : list (list N) := {clist(sorted(wr))}.")
        # attributes written outside __init__
        later = sorted(a for a, ms in wr.items() if ms - {"__init__"})
        w.append(f"Definition {name}_attrs_after_init : list (list N) := {clist(later)}.")
        return wr
    emit_attrs("parser", cparser)
    emit_attrs("tokenstream", tstream)
    emit_attrs("lexer", clexer)
    emit_attrs("generator", cgen)
    emit_attrs("visitor", visitor)
    # reset sequences
    pr = leading_resets(find_method(cparser, "parse"))
    w.append(f"Definition parse_resets_attrs : list (list N) := {clist([x for k, x in pr if k == 'attr'])}.")
    w.append(f"Definition parse_resets_calls : list (list N) := {clist([x for k, x in pr if k == 'call'])}.")
    li = leading_resets(find_method(clexer, "input"))
    w.append(f"Definition lexer_input_calls : list (list N) := {clist([x for k, x in li if k == 'call'])}.")
    w.append(f"Definition lexer_input_attrs : list (list N) := {clist([x for k, x in li if k == 'attr'])}.")
    ls = leading_resets(find_method(clexer, "_init_state"))
    w.append(f"Definition lexer_init_state_attrs : list (list N) := {clist([x for k, x in ls if k == 'attr'])}.")
    ti = leading_resets(find_method(tstream, "__init__"))
    w.append(f"Definition tokenstream_init_attrs : list (list N) := {clist([x for k, x in ti if k == 'attr'])}.")
    gi = leading_resets(find_method(cgen, "__init__"))
    w.append(f"Definition generator_init_attrs : list (list N) := {clist([x for k, x in gi if k == 'attr'])}.")
    # class-level mutable attributes (assigned in the class body to a list/dict/set literal or call)
    cl = []
    for mod, tree in trees.items():
        for st in tree.body:
            if isinstance(st, ast.ClassDef):
                for b in st.body:
                    if isinstance(b, ast.Assign) and isinstance(b.value, (ast.List, ast.Set, ast.Call, ast.ListComp, ast.DictComp)):
                        cl.append(f"{mod}.{st.name}.{ast.unparse(b.targets[0])}")
    w.append(f"Definition class_level_mutable_objects : list (list N) := {clist(sorted(cl))}.")
    gw = []
    for mod, tree in trees.items():
        gw += global_writes(tree, mod)
    w.append(f"Definition global_writes : list (list N) := {clist(gw)}.")
    write_if_changed(os.path.join(outdir, "StateFacts.v"), "\n".join(w) + "\n")


if __name__ == "__main__":
    try:
        main(sys.argv[1])
    except TranslateError as e:
        print("TRANSLATE-ERROR tr_state:", e)
        sys.exit(3)
