"""Translate the AST specification and the checked-in node classes into Coq.

  gen/AstSpec.v    : _c_ast.cfg parsed with the same line grammar as _ast_gen.py
  gen/AstImpl.v    : every class of pycparser/c_ast.py, read statically with `ast`
                     (slots, __init__ signature and assignments, the children()
                     and __iter__ bodies as small programs, attr_names)
  gen/AstGenImpl.v : the same static reading applied to the output of running
                     the real pycparser/_ast_gen.py on the cfg in a scratch dir
Fail-closed: a class body outside the generated shape aborts the translation.
"""
import ast, os, sys, tempfile, shutil, subprocess
sys.path.insert(0, os.path.dirname(os.path.abspath(__file__)))
from common import *


def parse_cfg(path):
    out = []
    for line in open(path):
        line = line.strip()
        if not line or line.startswith("#"):
            continue
        colon_i, lb, rb = line.find(":"), line.find("["), line.find("]")
        if colon_i < 1 or lb <= colon_i or rb <= lb:
            raise TranslateError(f"invalid cfg line {line!r}")
        name = line[:colon_i]
        val = line[lb + 1:rb]
        ents = [v.strip() for v in val.split(",")] if val else []
        out.append((name, ents))
    return out


def is_self_attr(n):
    return isinstance(n, ast.Attribute) and isinstance(n.value, ast.Name) and n.value.id == "self"


def read_children(fn):
    body = fn.body
    if len(body) == 1 and isinstance(body[0], ast.Return) and isinstance(body[0].value, ast.Tuple) and not body[0].value.elts:
        return "CP_empty"
    if not (isinstance(body[0], ast.Assign) and len(body[0].targets) == 1 and isinstance(body[0].targets[0], ast.Name)
            and body[0].targets[0].id == "nodelist" and isinstance(body[0].value, ast.List) and not body[0].value.elts):
        raise TranslateError("children(): expected `nodelist = []`")
    last = body[-1]
    if not (isinstance(last, ast.Return) and isinstance(last.value, ast.Call) and isinstance(last.value.func, ast.Name)
            and last.value.func.id == "tuple" and len(last.value.args) == 1 and isinstance(last.value.args[0], ast.Name)
            and last.value.args[0].id == "nodelist"):
        raise TranslateError("children(): expected `return tuple(nodelist)`")
    steps = []
    for st in body[1:-1]:
        if isinstance(st, ast.If):
            t = st.test
            if not (isinstance(t, ast.Compare) and is_self_attr(t.left) and len(t.ops) == 1 and isinstance(t.ops[0], ast.IsNot)
                    and isinstance(t.comparators[0], ast.Constant) and t.comparators[0].value is None and not st.orelse and len(st.body) == 1):
                raise TranslateError("children(): unexpected if")
            call = st.body[0]
            if not (isinstance(call, ast.Expr) and isinstance(call.value, ast.Call) and isinstance(call.value.func, ast.Attribute)
                    and call.value.func.attr == "append" and isinstance(call.value.func.value, ast.Name) and call.value.func.value.id == "nodelist"
                    and len(call.value.args) == 1 and isinstance(call.value.args[0], ast.Tuple) and len(call.value.args[0].elts) == 2):
                raise TranslateError("children(): unexpected append")
            lab, val = call.value.args[0].elts
            if not (isinstance(lab, ast.Constant) and isinstance(lab.value, str) and is_self_attr(val)):
                raise TranslateError("children(): unexpected tuple")
            steps.append(f"CS_child {cstr(t.left.attr)} {cstr(lab.value)} {cstr(val.attr)}")
        elif isinstance(st, ast.For):
            tg = st.target
            it = st.iter
            if not (isinstance(tg, ast.Tuple) and [e.id for e in tg.elts] == ["i", "child"] and isinstance(it, ast.Call)
                    and isinstance(it.func, ast.Name) and it.func.id == "enumerate" and len(it.args) == 1
                    and isinstance(it.args[0], ast.BoolOp) and isinstance(it.args[0].op, ast.Or) and len(it.args[0].values) == 2
                    and is_self_attr(it.args[0].values[0]) and isinstance(it.args[0].values[1], ast.List) and not it.args[0].values[1].elts
                    and not st.orelse and len(st.body) == 1):
                raise TranslateError("children(): unexpected for")
            call = st.body[0]
            if not (isinstance(call, ast.Expr) and isinstance(call.value, ast.Call) and isinstance(call.value.func, ast.Attribute)
                    and call.value.func.attr == "append" and len(call.value.args) == 1 and isinstance(call.value.args[0], ast.Tuple)):
                raise TranslateError("children(): unexpected append in for")
            lab, val = call.value.args[0].elts
            if not (isinstance(lab, ast.JoinedStr) and len(lab.values) == 3 and isinstance(lab.values[0], ast.Constant)
                    and lab.values[0].value.endswith("[") and isinstance(lab.values[1], ast.FormattedValue)
                    and isinstance(lab.values[1].value, ast.Name) and lab.values[1].value.id == "i" and lab.values[1].conversion == -1
                    and lab.values[1].format_spec is None and isinstance(lab.values[2], ast.Constant) and lab.values[2].value == "]"
                    and isinstance(val, ast.Name) and val.id == "child"):
                raise TranslateError("children(): unexpected label in for")
            steps.append(f"CS_seq {cstr(it.args[0].values[0].attr)} {cstr(lab.values[0].value[:-1])}")
        else:
            raise TranslateError("children(): unexpected statement")
    return "(CP_steps [" + "; ".join(steps) + "])"


def read_iter(fn):
    body = fn.body
    if (len(body) == 2 and isinstance(body[0], ast.Return) and body[0].value is None and isinstance(body[1], ast.Expr)
            and isinstance(body[1].value, ast.Yield) and body[1].value.value is None):
        return "IP_empty"
    steps = []
    for st in body:
        if isinstance(st, ast.If):
            t = st.test
            if not (isinstance(t, ast.Compare) and is_self_attr(t.left) and len(t.ops) == 1 and isinstance(t.ops[0], ast.IsNot)
                    and isinstance(t.comparators[0], ast.Constant) and t.comparators[0].value is None and not st.orelse and len(st.body) == 1
                    and isinstance(st.body[0], ast.Expr) and isinstance(st.body[0].value, ast.Yield) and is_self_attr(st.body[0].value.value)):
                raise TranslateError("__iter__: unexpected if")
            steps.append(f"IS_child {cstr(t.left.attr)} {cstr(st.body[0].value.value.attr)}")
        elif isinstance(st, ast.For):
            it = st.iter
            if not (isinstance(st.target, ast.Name) and st.target.id == "child" and isinstance(it, ast.BoolOp) and isinstance(it.op, ast.Or)
                    and len(it.values) == 2 and is_self_attr(it.values[0]) and isinstance(it.values[1], ast.List) and not it.values[1].elts
                    and not st.orelse and len(st.body) == 1 and isinstance(st.body[0], ast.Expr) and isinstance(st.body[0].value, ast.Yield)
                    and isinstance(st.body[0].value.value, ast.Name) and st.body[0].value.value.id == "child"):
                raise TranslateError("__iter__: unexpected for")
            steps.append(f"IS_seq {cstr(it.values[0].attr)}")
        else:
            raise TranslateError("__iter__: unexpected statement")
    return "(IP_steps [" + "; ".join(steps) + "])"


def clist(strs):
    return "[" + "; ".join(cstr(s) for s in strs) + "]" if strs else "(@nil (list N))"


def read_classes(src):
    tree = ast.parse(src)
    out = []
    for node in tree.body:
        if not isinstance(node, ast.ClassDef):
            continue
        if node.name in ("Node", "NodeVisitor"):
            continue
        if not (len(node.bases) == 1 and isinstance(node.bases[0], ast.Name) and node.bases[0].id == "Node"):
            raise TranslateError(f"class {node.name}: unexpected bases")
        if node.decorator_list or node.keywords:
            raise TranslateError(f"class {node.name}: decorators/keywords")
        slots = init = children = it = attr_names = None
        for st in node.body:
            if isinstance(st, ast.Assign) and len(st.targets) == 1 and isinstance(st.targets[0], ast.Name):
                nm = st.targets[0].id
                if not (isinstance(st.value, ast.Tuple) and all(isinstance(e, ast.Constant) and isinstance(e.value, str) for e in st.value.elts)):
                    raise TranslateError(f"class {node.name}: {nm} is not a tuple of strings")
                vals = [e.value for e in st.value.elts]
                if nm == "__slots__":
                    slots = vals
                elif nm == "attr_names":
                    attr_names = vals
                else:
                    raise TranslateError(f"class {node.name}: unexpected class attribute {nm}")
            elif isinstance(st, ast.FunctionDef):
                if st.decorator_list:
                    raise TranslateError(f"class {node.name}: decorated method")
                a = st.args
                if a.vararg or a.kwarg or a.kwonlyargs or a.posonlyargs:
                    raise TranslateError(f"class {node.name}.{st.name}: unexpected parameters")
                if st.name == "__init__":
                    params = [x.arg for x in a.args]
                    if params[0] != "self":
                        raise TranslateError("__init__ without self")
                    ndef = len(a.defaults)
                    defaults = []
                    for d in a.defaults:
                        if not (isinstance(d, ast.Constant) and d.value is None):
                            raise TranslateError("__init__: default other than None")
                    assigns = []
                    for s in st.body:
                        if not (isinstance(s, ast.Assign) and len(s.targets) == 1 and is_self_attr(s.targets[0]) and isinstance(s.value, ast.Name)):
                            raise TranslateError(f"class {node.name}.__init__: unexpected statement")
                        assigns.append((s.targets[0].attr, s.value.id))
                    init = (params[1:], ndef, assigns)
                elif st.name == "children":
                    if [x.arg for x in a.args] != ["self"]:
                        raise TranslateError("children(): parameters")
                    children = read_children(st)
                elif st.name == "__iter__":
                    if [x.arg for x in a.args] != ["self"]:
                        raise TranslateError("__iter__: parameters")
                    it = read_iter(st)
                else:
                    raise TranslateError(f"class {node.name}: unexpected method {st.name}")
            elif isinstance(st, ast.Expr) and isinstance(st.value, ast.Constant) and isinstance(st.value.value, str):
                pass  # docstring
            else:
                raise TranslateError(f"class {node.name}: unexpected statement {type(st).__name__}")
        if None in (slots, init, children, it, attr_names):
            raise TranslateError(f"class {node.name}: missing member")
        out.append((node.name, slots, init, children, it, attr_names))
    return out


def emit_impl(defname, classes):
    w = []
    w.append(f"Definition {defname} : list class_impl := [")
    for i, (name, slots, (params, ndef, assigns), children, it, attr_names) in enumerate(classes):
        asg = "[" + "; ".join(f"({cstr(a)}, {cstr(b)})" for a, b in assigns) + "]" if assigns else "(@nil (list N * list N))"
        w.append(f"  {{| ci_name := {cstr(name)}; ci_slots := {clist(slots)}; ci_params := {clist(params)}; ci_ndefaults := {ndef}%nat;")
        w.append(f"     ci_assigns := {asg};")
        w.append(f"     ci_children := {children}; ci_iter := {it}; ci_attr_names := {clist(attr_names)} |}}" + (";" if i + 1 < len(classes) else ""))
    w.append("].")
    return w


HEADER = ["From Coq Require Import List NArith.", "Import ListNotations.", "From PV Require Import Regex AstDefs.", "Open Scope N_scope.", ""]


def main(outdir):
    pkg = os.path.join(REPO, "pycparser")
    cfg = parse_cfg(os.path.join(pkg, "_c_ast.cfg"))
    # --- spec
    w = ["(* GENERATED by translator/tr_ast.py from pycparser/_c_ast.cfg -- do not edit *)"] + HEADER
    w.append("Definition ast_spec : list class_spec := [")
    for i, (name, ents) in enumerate(cfg):
        es = []
        for e in ents:
            clean = e.rstrip("*")
            kind = "ESeq" if e.endswith("**") else "EChild" if e.endswith("*") else "EAttr"
            es.append(f"({cstr(clean)}, {kind})")
        w.append(f"  {{| cs_name := {cstr(name)}; cs_entries := " + ("[" + "; ".join(es) + "]" if es else "(@nil (list N * ekind))") + " |}" + (";" if i + 1 < len(cfg) else ""))
    w.append("].")
    # class enumeration (used by the parser / generator models)
    w.append("")
    w.append("Inductive cls : Set :=")
    for name, _ in cfg:
        w.append(f"| C_{cident(name)}")
    w.append(".")
    w.append("Definition cls_index (c: cls) : N :=\n  match c with")
    for i, (name, _) in enumerate(cfg):
        w.append(f"  | C_{cident(name)} => {i}")
    w.append("  end.")
    w.append("Definition cls_eqb (a b: cls) : bool := N.eqb (cls_index a) (cls_index b).")
    w.append("Definition cls_name (c: cls) : list N :=\n  match c with")
    for name, _ in cfg:
        w.append(f"  | C_{cident(name)} => {cstr(name)}")
    w.append("  end.")
    w.append("Definition all_cls : list cls := [" + "; ".join("C_" + cident(n) for n, _ in cfg) + "].")
    write_if_changed(os.path.join(outdir, "AstSpec.v"), "\n".join(w) + "\n")

    # --- checked-in implementation
    classes = read_classes(open(os.path.join(pkg, "c_ast.py")).read())
    w = ["(* GENERATED by translator/tr_ast.py from pycparser/c_ast.py (static read) -- do not edit *)"] + HEADER
    w += emit_impl("ast_impl", classes)
    write_if_changed(os.path.join(outdir, "AstImpl.v"), "\n".join(w) + "\n")

    # --- what the real generator produces from the cfg now
    tmp = tempfile.mkdtemp(prefix="verif_astgen_")
    try:
        shutil.copy(os.path.join(pkg, "_ast_gen.py"), tmp)
        shutil.copy(os.path.join(pkg, "_c_ast.cfg"), tmp)
        code = ("import _ast_gen\n"
                "g = _ast_gen.ASTCodeGenerator('_c_ast.cfg')\n"
                "g.generate(open('out_c_ast.py', 'w'))\n")
        p = subprocess.run([sys.executable, "-c", code], cwd=tmp, capture_output=True, text=True, timeout=120)
        if p.returncode != 0:
            raise TranslateError("running _ast_gen.py failed: " + p.stderr[-500:])
        gen_classes = read_classes(open(os.path.join(tmp, "out_c_ast.py")).read())
    finally:
        shutil.rmtree(tmp, ignore_errors=True)
    w = ["(* GENERATED by translator/tr_ast.py: static read of the output of the real _ast_gen.py -- do not edit *)"] + HEADER
    w += emit_impl("ast_gen_impl", gen_classes)
    write_if_changed(os.path.join(outdir, "AstGenImpl.v"), "\n".join(w) + "\n")


if __name__ == "__main__":
    try:
        main(sys.argv[1])
    except TranslateError as e:
        print("TRANSLATE-ERROR tr_ast:", e)
        sys.exit(3)
