#!/bin/sh
# run every check once (quick tier unless VERIF_TIER is set); print one summary line per check
cd "$(dirname "$0")/.."
for i in 01 02 03 04 05 06 07 08 09 10 11 12 13 14 15 16 17 18 19; do
  ./check C$i "$@" 2>&1 | grep -E "^\[C|^VIOLATION" | head -5
done
