#!/bin/sh
# parcheck.sh <tier> <seed> [<seed> ...] : all 19 checks once per seed, one worker (own copy of /verif) per seed, /repo read-only
TIER=$1; shift
mkdir -p /tmp/par
for sd in "$@"; do
  rsync -a --delete --exclude seeded /verif/ /tmp/par/cverif$sd/
  ( cd /tmp/par/cverif$sd && for i in 01 02 03 04 05 06 07 08 09 10 11 12 13 14 15 16 17 18 19; do
      VERIF_SEED=$sd ./check C$i --tier $TIER 2>&1 | grep -E "^\[C|^VIOLATION" | head -4
    done > /tmp/par/clog$sd.txt 2>&1 ) &
done
wait
for sd in "$@"; do echo "--- seed $sd"; grep -c "violations=0" /tmp/par/clog$sd.txt; grep -E "VIOLATION|violations=[1-9]" /tmp/par/clog$sd.txt; done
