"""The repository's C corpus, preprocessed with the fake libc headers, plus a
small built-in set of snippets that exercise every node class."""
import glob, os, subprocess
from lib import REPO

SNIPPETS = [
    "int x;",
    "typedef int T; T a, *b, c[3]; struct S { int a; T b : 3; } s = { .a = 1, .b = 2 };",
    "int f(int a, char **argv) { if (a) return 1; else { while (a--) ; } for (int i = 0; i < 3; ++i) a += i; return a ? a : -a; }",
    "void g(void) { switch (1) { case 1: case 2: break; default: ; } do { goto L; } while (0); L: ; }",
    "enum E { A, B = 2, C }; union U { int a; float b; }; static const char *s = \"a\" \"b\"; wchar_t *w = L\"x\";" .replace("wchar_t", "int"),
    "int h(int n, ...) { int a[n]; return sizeof(int) + sizeof a + (int)3.5f + a[1] + h(1, 2) + (a, n); }",
    "_Static_assert(1, \"ok\"); _Alignas(8) int al; _Atomic int at; _Noreturn void die(void); int _Alignof_test = _Alignof(int);",
    "#pragma once\nint p;\nvoid q(void) {\n#pragma omp parallel\n  p++;\n}",
    "struct P { int x, y; }; struct P pt = (struct P){ 1, 2 }; int arr[2][2] = { [0] = { 1, 2 }, [1][0] = 3 };",
    "int (*fp)(int, char); int *(*fpp[3])(void); void k(int (*cb)(void *), const char *const restrict s);",
    "char c1 = 'a', c2 = '\\n', c3 = '\\''; char *str = \"q\\\"uote\\\\\"; int big = 0x1FuL, oct = 017, bin = 0b11; double d = 1.5e-3, hd = 0x1.8p3;",
    "int old(a, b) int a; char b; { return a + b; }",
    "void m(void) { int i; i = i ? i , i : i; i += i << 2 >> 1; i = !i && ~i || i ^ i | i & i; i = i++ + --i; i = *&i; i = offsetof(struct P, x); }".replace("struct P", "struct PP { int x; }"),
]


def corpus_texts():
    """[(name, text)] of C sources that the real parser is expected to accept."""
    out = [(f"snippet{i}", s) for i, s in enumerate(SNIPPETS)]
    fake = os.path.join(REPO, "utils", "fake_libc_include")
    files = sorted(glob.glob(os.path.join(REPO, "tests", "c_files", "*.c")) + glob.glob(os.path.join(REPO, "examples", "c_files", "*.c")))
    for f in files:
        try:
            p = subprocess.run(["cpp", "-nostdinc", "-I", fake, "-I", os.path.dirname(f), f], capture_output=True, text=True, timeout=60)
            if p.returncode == 0:
                out.append((os.path.relpath(f, REPO), p.stdout))
        except Exception:
            pass
    return out


def big_corpus_texts():
    out = []
    for f in sorted(glob.glob(os.path.join(REPO, "utils", "benchmark", "inputs", "*.ppout"))):
        out.append((os.path.relpath(f, REPO), open(f).read()))
    return out
