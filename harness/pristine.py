"""Outcomes of CParser().parse(text, filename) computed each in a FRESH interpreter (multiprocessing, spawn, one task per
process): what a parse gives when nothing else has happened in the process.  stdin: JSON [[text, filename], ...];
stdout: JSON [outcome, ...] with the canonical outcome strings of parsecorr.show_ast."""
import json, multiprocessing as mp, os, sys

HERE = os.path.dirname(os.path.abspath(__file__))


def one(item):
    text, fn = item
    sys.path.insert(0, HERE)
    import lib                      # puts the repository under test first on sys.path
    from parsecorr import show_ast
    from lib import US
    from pycparser import c_parser
    try:
        a = c_parser.CParser().parse(text, fn)
        return "OK" + US + show_ast(a, True)
    except c_parser.ParseError as e:
        return "E" + US + str(e)
    except RecursionError:
        return "R"
    except Exception as e:
        return "C" + US + type(e).__name__


if __name__ == "__main__":
    items = json.load(sys.stdin)
    ctx = mp.get_context("spawn")
    with ctx.Pool(processes=min(12, max(1, len(items))), maxtasksperchild=1) as pool:
        out = pool.map(one, items, chunksize=1)
    json.dump(out, sys.stdout)
