import sys
sys.path.insert(0,'/verif/harness')
from parsecorr import *
def coqstr(s):
    return '"' + s.replace('"','""') + '"'
def ex(name, text, comment):
    o = impl_parse(text, "f.c", wc=False).replace(US, "|")
    o = o.rsplit("|",1)[0] if o.startswith("OK") else o
    return f'''(* {comment} *)
Example ex_{name} :
  outcome_str (s2l {coqstr(text)}) = s2l {coqstr(o)}.
Proof. vm_compute. reflexivity. Qed.
'''
hdr = '''From Coq Require Import List NArith Bool Arith.
Import ListNotations.
From PV Require Import Regex Base LexTables NodeModel ParserBase ParserDecl ParserMain Api.

'''
c05 = hdr + ex("C05_dangling_else", "void f(){ if (a) if (b) x; else y; }", "the else belongs to the nearest unmatched if (C99 6.8.4.1p3)") \
 + ex("C05_switch_regroup", "void f(){ switch(x){ case 1: a; b; case 2: case 3: c; default: d; } }", "statements go under the nearest preceding label; consecutive labels stay siblings") \
 + ex("C05_for_decl", "void f(){ for(int i=0;i<3;i++) x; }", "a declaration init lands in a DeclList") \
 + ex("C05_pragma_once", "void f(){\n#pragma p1\n x;\n if (a)\n#pragma p2\n y;\n}", "each pragma once, verbatim, in place; a pragma-prefixed sub-statement is wrapped in a Compound") \
 + ex("C05_static_assert_stmt", "void f(){ if (x) _Static_assert(1,\"a\"); }", "a static assertion as a sub-statement is one node, like any statement (was a Python list before the fix: commit)")
open('/verif/coq/proofs/StmtExamples.v','w').write(c05)
c03 = hdr + ex("C03_inside_out", "int *(*fp[3])(char, int *);", "array of pointers to functions returning pointer to int: derivations from the identifier outward") \
 + ex("C03_shared_specifiers", "static const int a, *b, c[2];", "specifiers shared by several declarators apply to each") \
 + ex("C03_atomic_specifier", "_Atomic(int) x;", "_Atomic(T) means the _Atomic-qualified T") \
 + ex("C03_atomic_shared_refuted", "_Atomic(int) x, *p;", "witness: with several declarators the shared _Atomic(...) node is mutated - the second declaration is named x as well")
open('/verif/coq/proofs/DeclExamples.v','w').write(c03)
c06 = hdr + ex("C06_stray_rbrace", "}", "a stray } is a located ParseError (was an AssertionError before the fix)") \
 + ex("C06_int_struct", "int struct T;", "two type specifiers where the last is not a plain name: ParseError (was AttributeError)") \
 + ex("C06_multichar", "int x = 'uu';", "a multi-character constant made of suffix letters is an int constant (was ValueError)") \
 + ex("C06_located", "const;", "the message starts with a source location (was '?: ...')")
open('/verif/coq/proofs/CrashExamples.v','w').write(c06)

c18 = hdr + ex("C18_stray_at", "int x @ = 1;", "a stray '@' is rejected at its own position") \
 + ex("C18_comment", "int x; /* c */", "a comment is not a token") \
 + ex("C18_directive", "#define X 1\nint x;", "a directive other than #line / #pragma is rejected") \
 + ex("C18_missing_bracket", "int f(int a) { return a[1; }", "a deleted ] is rejected") \
 + ex("C18_extra_brace", "int f(void) { { return 1; }", "a duplicated { is rejected") \
 + ex("C18_swapped_kind", "int f(void) { return g(1]; }", "a bracket of the wrong kind is rejected")
open('/verif/coq/proofs/RejectExamples.v','w').write(c18)

def tex(name, text, comment):
    o = impl_parse(text, "f.c", wc=False)
    t = o.rsplit(US,1)[1]
    return f'''(* {comment} *)
Example ex_{name} :
  ticks_of (s2l {coqstr(text)}) = {t}%N.
Proof. vm_compute. reflexivity. Qed.
'''
cl = lambda k: "int x = " + "(int[" * k + "1" + "]){0}" * k + ";"
c16 = hdr + "".join(tex(f"C16_complit_{k}", cl(k), f"witness of exponential growth: nesting depth {k}") for k in (1,2,3,4,5,6)) \
   + tex("C16_linear_8", " ".join(f"int v{i} = {i};" for i in range(8)), "a linear family at k=8") \
   + tex("C16_linear_16", " ".join(f"int v{i} = {i};" for i in range(16)), "... and at k=16: exactly twice the token reads")
open('/verif/coq/proofs/CostExamples.v','w').write(c16)

def rt(name, text, comment, rp, expect=True):
    return f'''(* {comment} *)
Example ex_{name} :
  roundtrip_ok {"true" if rp else "false"} (s2l {coqstr(text)}) = {"true" if expect else "false"}.
Proof. vm_compute. reflexivity. Qed.
'''
progs = [("decls", "typedef int T; static const T a = 1, *b[3], (*fp)(int, char *); struct S { int x : 3; T y; } s = { .x = 1, .y = 2 };"),
         ("exprs", "int f(int a, int b) { return (a + b) * (a - b) / (a ? b : -a) + sizeof(int) + (int)a % b << 2 >= (a & b | a ^ b) && !a || ~b; }"),
         ("stmts", "void g(int n) { for (int i = 0; i < n; i++) { if (i) continue; else break; } while (n--) ; do n++; while (n < 3); switch (n) { case 1: case 2: n = 1; break; default: ; } L: goto L; }"),
         ("nested_ops", "int h(int a, int b, int c) { return a - (b - c) + a * (b + c) - (a - b) - c + a / (b / c) + (a << b) + c; }")]
c07 = hdr
for nm, t in progs:
    c07 += rt(f"C07_roundtrip_{nm}", t, "parse . generate . parse = parse and second generation = first (default configuration)", False)
    c07 += rt(f"C07_roundtrip_rp_{nm}", t, "... and with reduce_parentheses", True)
c07 += rt("C07_forinit_multi_refuted", "void f(void){ for (int *p = 0, *q = 0; ; ) ; }", "witness (known finding): a for-init declaration with several declarators does not round-trip", False, False)
c07 += rt("C07_assign_lvalue_refuted", "void f(void){ (a, b) = 1; }", "witness (known finding): an assignment whose lvalue is a comma expression does not round-trip", False, False)
open('/verif/coq/proofs/GenExamples.v','w').write(c07)

def rg(name, text, comment, rp=False):
    from pycparser import c_parser, c_generator
    out = c_generator.CGenerator(reduce_parentheses=rp).visit(c_parser.CParser().parse(text, "f.c"))
    return f'''(* {comment} *)
Example ex_{name} :
  regen {"true" if rp else "false"} (s2l {coqstr(text)}) = Some (s2l {coqstr(out)}).
Proof. vm_compute. reflexivity. Qed.
'''
c08 = hdr + rg("C08_regen_decls", "static const int a = 1, *b[3]; int (*fp)(int, char *); struct S { int x : 3; } s = { .x = 1 };", "the regenerated text of a declaration list: every specifier, declarator and initializer token is there, in order") \
  + rg("C08_regen_exprs", "int f(int a, int b) { return a - (b - a) + a * (b + 1) / (a ? b : -a) + sizeof(int) + (int)a % b; }", "operands keep their grouping (default configuration: every non-simple operand parenthesised)") \
  + rg("C08_regen_exprs_rp", "int f(int a, int b) { return a - (b - a) + a * (b + 1) - (a - b) - 1; }", "reduce_parentheses keeps exactly the parentheses the precedence levels require", True) \
  + rg("C08_regen_stmts", "void g(int n) { for (int i = 0; i < n; i++) if (i) continue; else break; switch (n) { case 1: case 2: n = 1; break; default: ; } }", "statements: nothing dropped, duplicated or reordered") \
  + rg("C08_designator_identifier_refuted", "enum { N = 1 }; int a[3] = { [N] = 1 };", "witness (known finding): an identifier array designator comes back as a member designator") \
  + rg("C08_struct_body_twice_refuted", "struct S { int a; } x, y;", "witness (known finding): the struct body is emitted once per declarator")
open('/verif/coq/proofs/RegenExamples.v','w').write(c08)
