import os, sys
sys.path.insert(0, os.path.dirname(os.path.abspath(__file__)))
import lib
b = lib.build()
print("translator errors:", b.translator_errors)
print("failed .v:", b.failed_vo)
print("forbidden constructs:", b.forbidden)
print("driver:", "ok" if b.driver_ok else "FAILED")
if not b.ok:
    print(b.make_log[-4000:])
sys.exit(0 if b.ok else 1)
