"""Shared machinery of the checks: build, model driver, evidence, findings.

Run with /venv/bin/python; PYTHONPATH is forced to /repo so that the
implementation under test is /repo's working tree.
"""
import fcntl, hashlib, json, os, random, re, subprocess, sys, time

VERIF = os.path.dirname(os.path.dirname(os.path.abspath(__file__)))
REPO = os.environ.get("VERIF_REPO", "/repo")
COQ = os.path.join(VERIF, "coq")
BUILD = os.path.join(VERIF, "build")
EVID = os.path.join(VERIF, "evidence")
REPLAY = os.path.join(EVID, "replay")
PY = "/venv/bin/python"

US, RS = "\x1f", "\x1e"

# make the implementation importable, and only from /repo
sys.path[:] = [p for p in sys.path if "pycparser" not in p]
if REPO not in sys.path:
    sys.path.insert(0, REPO)
sys.setrecursionlimit(3000)

TRANSLATORS = ["tr_lexer.py", "tr_parser_tables.py", "tr_generator_tables.py", "tr_ast.py", "tr_state.py", "tr_litspec.py"]

FORBIDDEN = re.compile(
    r"\b(Admitted|admit|Axiom|Axioms|Parameter|Parameters|Conjecture|Conjectures)\b"
    r"|Unset\s+Guard|bypass_check|type-in-type|impredicative-set|Admit\s+Obligations|native_compute")

ALLOWED_AXIOMS = set()   # every property theorem is expected to be closed under the global context


def log(*a):
    print(*a, flush=True)


def sh(cmd, timeout=3600, cwd=None, env=None):
    e = dict(os.environ)
    e.update({"PYTHONPATH": REPO, "PYTHONHASHSEED": "0", "VERIF_REPO": REPO})
    if env:
        e.update(env)
    p = subprocess.run(cmd, shell=isinstance(cmd, str), cwd=cwd, env=e, timeout=timeout,
                       stdout=subprocess.PIPE, stderr=subprocess.STDOUT, text=True)
    return p.returncode, p.stdout


class BuildResult:
    def __init__(self):
        self.translator_errors = []   # (translator, message)
        self.failed_vo = []           # list of .v files that failed to compile
        self.make_log = ""
        self.driver_ok = False
        self.forbidden = []           # forbidden constructs found in sources
        self.assumptions = {}         # prop file -> Print Assumptions text

    @property
    def ok(self):
        return not (self.translator_errors or self.failed_vo or self.forbidden) and self.driver_ok


def scan_forbidden():
    bad = []
    for root, _, files in os.walk(COQ):
        for f in files:
            if f.endswith(".v"):
                p = os.path.join(root, f)
                txt = open(p).read()
                # strip comments (non-nested approximation is enough: nested comments are not used)
                txt2 = re.sub(r"\(\*.*?\*\)", "", txt, flags=re.S)
                for m in FORBIDDEN.finditer(txt2):
                    bad.append(f"{os.path.relpath(p, VERIF)}: {m.group(0)}")
                # Variable / Hypothesis / Context are fine inside a Section and declare an axiom outside one
                depth = 0
                for line in txt2.splitlines():
                    if re.match(r"\s*Section\s+\w+\s*\.", line):
                        depth += 1
                    elif re.match(r"\s*End\s+\w+\s*\.", line):
                        depth = max(0, depth - 1)
                    elif depth == 0 and re.match(r"\s*(#\[[^\]]*\]\s*)?(Local\s+|Global\s+)?(Variable|Variables|Hypothesis|Hypotheses|Context)\b", line):
                        bad.append(f"{os.path.relpath(p, VERIF)}: {line.strip()[:60]} (outside a section)")
    return bad


def build(targets=None, clean=False, jobs=16):
    """Translate /repo's tables, compile the Coq development, extract, build the driver.
    Returns a BuildResult.  Serialised by a file lock."""
    os.makedirs(BUILD, exist_ok=True)
    res = BuildResult()
    with open(os.path.join(BUILD, ".lock"), "w") as lk:
        fcntl.flock(lk, fcntl.LOCK_EX)
        gen = os.path.join(COQ, "gen")
        os.makedirs(gen, exist_ok=True)
        for t in TRANSLATORS:
            tp = os.path.join(VERIF, "translator", t)
            if not os.path.exists(tp):
                continue
            rc, out = sh([PY, tp, gen], timeout=600)
            if rc != 0:
                res.translator_errors.append((t, out.strip()[-2000:]))
        res.forbidden = scan_forbidden()
        sh(["sh", os.path.join(COQ, "mkproject.sh")])
        if clean:
            sh("make clean >/dev/null 2>&1; rm -f model.ml model.mli", cwd=COQ)
        t0 = time.time()
        rc, out = sh(f"timeout 10000 make -k -j{jobs} 2>&1", cwd=COQ, timeout=10100)
        res.make_log = out
        res.make_s = time.time() - t0
        if rc != 0:
            for m in re.finditer(r"\*\*\* \[[^\]]*?: ([\w/]+)\.vo\] Error", out):
                res.failed_vo.append(m.group(1) + ".v")
            if not res.failed_vo:
                res.failed_vo.append("(make failed) " + out[-1500:])
        # Print Assumptions output is part of the make log, per props file
        cur = None
        for line in out.splitlines():
            m = re.match(r"COQC (props/\w+\.v)", line)
            if m:
                cur = m.group(1)
        # (assumption text is collected separately by print_assumptions())
        # driver
        ml = os.path.join(COQ, "model.ml")
        drv = os.path.join(BUILD, "driver")
        if os.path.exists(ml) and "extract/Extract.v" not in res.failed_vo:
            h = hashlib.sha256(open(ml, "rb").read() + open(os.path.join(VERIF, "ocaml", "driver.ml"), "rb").read()).hexdigest()
            stamp = os.path.join(BUILD, "driver.stamp")
            if not (os.path.exists(drv) and os.path.exists(stamp) and open(stamp).read() == h):
                sh(f"cp {COQ}/model.ml {COQ}/model.mli {VERIF}/ocaml/driver.ml {BUILD}/")
                rc, out2 = sh("ocamlfind ocamlopt -O3 -w -a model.mli model.ml driver.ml -o driver 2>&1", cwd=BUILD, timeout=900)
                if rc == 0:
                    open(stamp, "w").write(h)
                else:
                    res.make_log += "\nDRIVER BUILD FAILED\n" + out2
            res.driver_ok = os.path.exists(drv) and os.path.exists(stamp) and open(stamp).read() == h
    return res


def print_assumptions(prop_v):
    """Re-run coqc on one props file and return what its Print Assumptions commands printed."""
    rc, out = sh(f"timeout 600 coqc -R . PV {prop_v} 2>&1", cwd=COQ, timeout=700)
    return rc, out


def theorems_in(prop_v):
    txt = open(os.path.join(COQ, prop_v)).read()
    txt = re.sub(r"\(\*.*?\*\)", "", txt, flags=re.S)
    return re.findall(r"^\s*(?:Theorem|Lemma|Corollary|Example)\s+(\w+)", txt, flags=re.M)


def theorem_statements(prop_v, limit=6):
    txt = open(os.path.join(COQ, prop_v)).read()
    out = []
    for m in re.finditer(r"^(Theorem|Corollary)\s+(\w+)\s*(.*?)\.\s*\nProof", txt, flags=re.M | re.S):
        out.append((m.group(1) + " " + m.group(2) + " " + " ".join(m.group(3).split()))[:600])
        if len(out) >= limit:
            break
    return out


# --------------------------------------------------------------------------
class Model:
    """Pipe to the extracted OCaml driver."""

    def __init__(self):
        self.p = subprocess.Popen(["/bin/sh", "-c", f"ulimit -s unlimited 2>/dev/null; exec {BUILD}/driver"], stdin=subprocess.PIPE, stdout=subprocess.PIPE,
                                  text=True, bufsize=1 << 20)
        self.calls = 0

    @staticmethod
    def enc(op, *strs):
        parts = [str(op)]
        for s in strs:
            if isinstance(s, int):
                parts.append(str(s))
            else:
                parts.append(str(len(s)))
                parts.extend(str(ord(c)) for c in s)
        return " ".join(parts)

    def raw(self, line):
        self.p.stdin.write(line + "\n")
        self.p.stdin.flush()
        out = self.p.stdout.readline()
        if not out:
            raise RuntimeError("model driver died on request: " + line[:200])
        self.calls += 1
        return "".join(chr(int(x)) for x in out.split())

    def call(self, op, *strs):
        return self.raw(self.enc(op, *strs))

    def batch(self, lines):
        """Send many requests from a writer thread while reading the answers."""
        import threading
        res = []

        def writer():
            try:
                for i in range(0, len(lines), 500):
                    self.p.stdin.write("\n".join(lines[i:i + 500]) + "\n")
                self.p.stdin.flush()
            except Exception as e:
                log("model writer thread failed:", repr(e))

        th = threading.Thread(target=writer, daemon=True)
        th.start()
        for _ in lines:
            out = self.p.stdout.readline()
            if not out:
                raise RuntimeError("model driver died in batch")
            res.append("".join(map(chr, map(int, out.split()))))
        th.join()
        self.calls += len(lines)
        return res

    def close(self):
        try:
            self.p.stdin.close()
            self.p.wait(timeout=10)
        except Exception:
            self.p.kill()


# --------------------------------------------------------------------------
def load_findings():
    p = os.path.join(VERIF, "known_findings.json")
    if not os.path.exists(p):
        return {"findings": [], "fixed": []}
    return json.load(open(p))


def write_replay(prop, payload):
    os.makedirs(REPLAY, exist_ok=True)
    h = hashlib.sha256(json.dumps(payload, sort_keys=True, default=str).encode()).hexdigest()[:12]
    path = os.path.join(REPLAY, f"{prop}-{h}.json")
    with open(path, "w") as f:
        json.dump(payload, f, indent=1, default=str)
    return path


class Ctx:
    """Per-run context: seed, tier, counters, violations, evidence."""

    def __init__(self, prop, tier, seed):
        self.prop, self.tier, self.seed = prop, tier, seed
        self.rng = random.Random(seed)
        self.t0 = time.time()
        self.evaluations = 0
        self.nontrivial = set()
        self.samples = []
        self.violations = []      # (payload, no_input_found: bool)
        self.known_hits = {}      # finding id -> description
        self.notes = {}
        self.traces = 0
        self.hist = {}
        self.findings = [f for f in load_findings()["findings"] if f["property"] == prop]

    def count(self, key, n=1):
        self.hist[key] = self.hist.get(key, 0) + n

    def sample(self, s, cap=12):
        if len(self.samples) < cap:
            self.samples.append(s)

    def nontriv(self, key):
        if len(self.nontrivial) < 2_000_000:
            self.nontrivial.add(hash(key))

    def violation(self, payload, no_input=False):
        self.violations.append((payload, no_input))

    def known(self, fid, desc):
        self.known_hits[fid] = desc


def finish(ctx, build_res, prop_files, obligations, discharged, extra_cov=None, assumptions=None, trusted=None):
    """Write the evidence file, print KNOWN-FINDING / VIOLATION lines, return exit code."""
    os.makedirs(EVID, exist_ok=True)
    cov = {
        "obligations": obligations,
        "discharged": discharged,
        "checker_cmd": f"cd {COQ} && sh mkproject.sh && make -j16   (coqc 8.16.1, full .vo build; Print Assumptions under every property theorem)",
        "trusted_base": trusted or [],
        "evaluations": ctx.evaluations,
        "distinct_nontrivial": len(ctx.nontrivial),
        "samples": ctx.samples,
        "traces_validated_against_impl": ctx.traces,
        "input_distribution": ctx.hist,
        "prop_files": prop_files,
    }
    cov.update(ctx.notes)
    if extra_cov:
        cov.update(extra_cov)
    rc = 0
    lines = []
    for fid, desc in sorted(ctx.known_hits.items()):
        lines.append(f"KNOWN-FINDING: property={ctx.prop} {desc}")
    for payload, no_input in ctx.violations:
        path = write_replay(ctx.prop, payload)
        lines.append(f"VIOLATION property={ctx.prop} replay={path}" + (" no-failing-input-found" if no_input else ""))
        rc = 1
    ev = {
        "property_id": ctx.prop,
        "tier": ctx.tier,
        "seed": ctx.seed,
        "level": "proof",
        "coverage": cov,
        "assumptions": assumptions or [],
        "wall_s": round(time.time() - ctx.t0, 2),
        "violations": len(ctx.violations),
        "known_findings_reproduced": sorted(ctx.known_hits),
    }
    with open(os.path.join(EVID, f"{ctx.prop}.json"), "w") as f:
        json.dump(ev, f, indent=1, default=str)
    for l in lines:
        log(l)
    return rc


def kind_indices():
    """token class name -> index in the generated `all_kinds` (read from coq/gen/LexTables.v)"""
    txt = open(os.path.join(COQ, "gen", "LexTables.v")).read()
    m = re.search(r"Definition all_kinds : list kind := \[(.*?)\]\.", txt, re.S)
    names = [x.strip() for x in m.group(1).split(";")]
    out = {}
    for i, n in enumerate(names):
        n = n[2:]
        k = len(n) - len(n.lstrip("u")) if n[:1] == "u" and n.lstrip("u")[:1].isupper() else 0
        out["_" * k + n[k:]] = i
    return out
