"""CPU time of CParser().parse on each text of a JSON list read from stdin (fresh parser per text, after a warm-up parse).
Run in a subprocess by the C16 check; prints a JSON list of [CPU seconds (-1 for a text that is not accepted), number of Python-level and C-level function calls - a deterministic cost]."""
import json, os, sys, time
sys.path.insert(0, os.path.dirname(os.path.abspath(__file__)))
import lib  # noqa: puts the repository under test first on sys.path
from pycparser import c_parser
texts = json.load(sys.stdin)
c_parser.CParser().parse("int warm = 1; void f(void){ switch (warm) { case 1: break; } }", "w.c")
out = []
sys.setrecursionlimit(20000)
for t in texts:
    best = None
    for _ in range(2):
        t0 = time.process_time()
        try:
            c_parser.CParser().parse(t, "t.c")
        except Exception:
            best = -1.0
            break
        dt = time.process_time() - t0
        best = dt if best is None else min(best, dt)
    calls = [0]
    if best is not None and best >= 0:
        def prof(frame, event, arg):
            if event == "call" or event == "c_call":
                calls[0] += 1
        sys.setprofile(prof)
        try:
            c_parser.CParser().parse(t, "t.c")
        except Exception:
            pass
        finally:
            sys.setprofile(None)
    out.append([best, calls[0]])
json.dump(out, sys.stdout)
