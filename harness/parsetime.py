"""CPU time of CParser().parse on each text of a JSON list read from stdin (fresh parser per text, after a warm-up parse).
Run in a subprocess by the C16 check; prints a JSON list of [CPU seconds (-1 for a text that is not accepted, -2 for a parse
that uses more than CAP seconds of CPU time, -3 for a text skipped after two such parses), number of Python-level and C-level function calls - a deterministic cost]."""
import gc, json, os, signal, sys, time
CAP = float(os.environ.get("VERIF_PARSE_CPU_CAP", "25"))


class OverBudget(BaseException):
    pass


def _over(signum, frame):
    raise OverBudget()


signal.signal(signal.SIGVTALRM, _over)
sys.path.insert(0, os.path.dirname(os.path.abspath(__file__)))
import lib  # noqa: puts the repository under test first on sys.path
from pycparser import c_parser
texts = json.load(sys.stdin)
c_parser.CParser().parse("int warm = 1; void f(void){ switch (warm) { case 1: break; } }", "w.c")
out = []
sys.setrecursionlimit(20000)
over = 0
# the cyclic garbage collector's full collections walk every live object: with hundreds of thousands of AST nodes alive that
# alone is super-linear and depends on the allocation history - it is the interpreter's cost, not the parser's: switched off
gc.disable()
for t in texts:
    gc.collect()
    noprof, runs = False, 2
    if isinstance(t, dict):
        t, noprof, runs = t["t"], bool(t.get("noprof")), int(t.get("runs", 2))
    if over >= 2:
        out.append([-3.0, 0])       # not measured: two parses already ran over the budget, which the caller reports
        continue
    best = None
    for _ in range(runs):
        t0 = time.process_time()
        signal.setitimer(signal.ITIMER_VIRTUAL, CAP)
        try:
            c_parser.CParser().parse(t, "t.c")
        except OverBudget:
            best = -2.0
            over += 1
            break
        except RecursionError:
            best = -4.0            # nested deeper than the interpreter's recursion limit: tolerated (C06), nothing to time
            break
        except Exception:
            best = -1.0
            break
        finally:
            signal.setitimer(signal.ITIMER_VIRTUAL, 0)
        dt = time.process_time() - t0
        best = dt if best is None else min(best, dt)
    calls = [0]
    if best is not None and best >= 0 and not noprof:
        def prof(frame, event, arg):
            if event == "call" or event == "c_call":
                calls[0] += 1
        signal.setitimer(signal.ITIMER_VIRTUAL, 8 * CAP)
        sys.setprofile(prof)
        try:
            c_parser.CParser().parse(t, "t.c")
        except (Exception, OverBudget):
            pass
        finally:
            sys.setprofile(None)
            signal.setitimer(signal.ITIMER_VIRTUAL, 0)
    out.append([best, calls[0]])
json.dump(out, sys.stdout)
