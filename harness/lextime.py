"""Lex one text (read from stdin) with the implementation's CLexer and print the wall time.
Run in a subprocess by the C16 check so that a catastrophic regex can be killed (the sre engine
holds the GIL, signals are not delivered while it runs)."""
import os, sys, time
sys.path.insert(0, os.path.dirname(os.path.abspath(__file__)))
from lexcorr import impl_lex
text = sys.stdin.read()
t0 = time.process_time()
out = impl_lex(text)
print(f"{time.process_time() - t0:.3f} {len(out)}")
