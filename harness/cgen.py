"""Grammar-directed generator of C programs with their expected pycparser ASTs.

Written from ISO C99 6.5-6.9 (plus the C11 items pycparser documents) and from
pycparser's documented AST shapes (_c_ast.cfg) - never from c_parser.py.

A generated object is rendered to a token list [(spelling, class, kind)];
`toks` builders also record, for nodes whose coordinate must be the token that
spells them, the index of that token (field 3 of the expected node).

Expected AST nodes: ("node", Class, [fields...], tokindex_or_None); attribute
values are ("str", s) / ("none",) / ("list", [...]).
"""
import random
from lexcorr import PUNCT, C99_KEYWORDS, C11_KEYWORDS, EXT_KEYWORDS

KW = set(C99_KEYWORDS + C11_KEYWORDS + EXT_KEYWORDS)


def S(s):
    return ("str", s)


NONE = ("none",)


def L(items):
    return ("list", list(items))


def N(cls, fields, tok=None):
    return ("node", cls, list(fields), tok)


def strs(l):
    return L(S(x) for x in l)


class Toks:
    """token accumulator"""
    def __init__(self):
        self.t = []

    def add(self, sp):
        if sp in PUNCT:
            self.t.append((sp, PUNCT[sp], "punct"))
        elif sp in KW:
            self.t.append((sp, sp.upper(), "kw"))
        elif sp[0].isdigit() or (sp[0] == "." and len(sp) > 1):
            self.t.append((sp, "NUM", "num"))
        elif sp[0] in "'\"" or (sp[0] in "LuU" and ("'" in sp or '"' in sp)):
            self.t.append((sp, "LIT", "lit"))
        else:
            self.t.append((sp, "ID", "id"))
        return len(self.t) - 1

    def adds(self, *sps):
        for s in sps:
            self.add(s)


BINOPS = {  # op -> C99 level (6.5.5 - 6.5.14), higher binds tighter
    "||": 4, "&&": 5, "|": 6, "^": 7, "&": 8, "==": 9, "!=": 9, "<": 10, ">": 10, "<=": 10, ">=": 10,
    "<<": 11, ">>": 11, "+": 12, "-": 12, "*": 13, "/": 13, "%": 13}
ASSIGNOPS = ["=", "*=", "/=", "%=", "+=", "-=", "<<=", ">>=", "&=", "^=", "|="]
UNOPS = ["&", "*", "+", "-", "~", "!"]


INT_SUFFIXES = ["", "u", "U", "l", "L", "ul", "uL", "Ul", "UL", "lu", "lU", "Lu", "LU", "ll", "LL", "ull", "uLL", "Ull", "ULL", "llu", "llU", "LLu", "LLU"]


def int_type(sp):
    suf = ""
    for ch in reversed(sp):
        if ch in "uUlL":
            suf = ch + suf
        else:
            break
    u = sum(1 for c in suf if c in "uU")
    l = sum(1 for c in suf if c in "lL")
    return "unsigned " * u + "long " * l + "int"


def float_type(sp):
    if sp[-1] in "fF":
        return "float"
    if sp[-1] in "lL":
        return "long double"
    return "double"


class Gen:
    def __init__(self, rng, typedefs=()):
        self.rng = rng
        self.typedefs = list(typedefs)   # names usable as types
        self.vars = ["a", "b", "c", "p", "q", "x", "y", "n", "arr", "s"]
        self.ctr = 0
        self.avoid_known = True
        self.switch_pragmas = False      # pragma lines between a switch head and its body (listed finding of C05): only C05 asks for them

    def fresh(self, prefix="v"):
        self.ctr += 1
        return f"{prefix}{self.ctr}"

    # ---------------- expressions: spec trees ----------------
    def expr(self, depth, allow_comma=True):
        r = self.rng
        if depth <= 0:
            return self.primary()
        k = r.randint(0, 19)
        if k <= 4:
            op = r.choice(list(BINOPS))
            return ("bin", op, self.expr(depth - 1, False), self.expr(depth - 1, False))
        if k == 5:
            return ("assign", r.choice(ASSIGNOPS), self.lvalue(depth - 1), self.expr(depth - 1, False))
        if k == 6:
            return ("cond", self.expr(depth - 1, False), self.expr(depth - 1, True), self.expr(depth - 1, False))
        if k == 7 and allow_comma:
            return ("comma", [self.expr(depth - 1, r.random() < 0.4) for _ in range(r.randint(2, 3))])
        if k == 8:
            return ("un", r.choice(UNOPS), self.expr(depth - 1, False))
        if k == 9:
            return ("pre", r.choice(["++", "--"]), self.lvalue(depth - 1))
        if k == 10:
            return ("post", r.choice(["++", "--"]), self.lvalue(depth - 1))
        if k == 11:
            return ("cast", self.typename(1), self.expr(depth - 1, False))
        if k == 12:
            return ("sizeof_t", self.typename(1)) if r.random() < 0.5 else ("sizeof_e", self.expr(depth - 1, False))
        if k == 13:
            return ("call", self.expr(depth - 1, False), [self.expr(depth - 1, False) for _ in range(r.randint(0, 3))])
        if k == 14:
            return ("index", self.expr(depth - 1, False), self.expr(depth - 1, True))
        if k == 15:
            return ("member", r.choice([".", "->"]), self.expr(depth - 1, False), r.choice(["f", "g", "next"]))
        if k == 16:
            return ("alignof", self.typename(1))
        if k == 17:
            return ("complit", self.typename(0), self.initlist(depth - 1))
        return self.primary()

    def lvalue(self, depth):
        r = self.rng
        k = r.randint(0, 3)
        if depth <= 0 or k == 0:
            return ("id", r.choice(self.vars))
        if k == 1:
            return ("index", ("id", r.choice(self.vars)), self.expr(depth - 1, True))
        if k == 2:
            return ("un", "*", ("id", r.choice(self.vars)))
        return ("member", r.choice([".", "->"]), ("id", r.choice(self.vars)), "f")

    def primary(self):
        r = self.rng
        k = r.randint(0, 9)
        if k <= 4:
            return ("id", r.choice(self.vars))
        if k <= 6:
            if r.random() < 0.5:
                return ("const", "int", r.choice(["0", "1", "42", "0x1F", "017", "10u", "7UL", "3ll", "0b101", "9ULL"]))
            return ("const", "int", r.choice(["7", "0", "012", "0x1f", "0XA", "0b11", "0B1"]) + r.choice(INT_SUFFIXES))
        if k == 7:
            return ("const", "float", r.choice(["1.5", ".5", "2.", "1e3", "1.5f", "2.5L", "0x1.8p3", "3e-2F", "0x1p-3", "0xA.8p+2f", "0X.4P1L", "09.5", "1.E+2"]))
        if k == 8:
            return ("const", "char", r.choice(["'a'", "'\\n'", "'\\''", "L'x'", "'\\x41'", "'\\0'", "u'z'", "L'\u00e9'", "'\u20ac'"]))
        if r.random() < 0.15:
            if r.random() < 0.5:
                return ("strcat", r.sample(['"s"', '"a b"', '""', '"x\\n"', '"say \\"hi\\""', '"tail  "', '"\\\\"'], r.randint(2, 3)))
            pre = r.choice(["L", "u", "U", "u8"])
            return ("strcat", [pre + x for x in r.sample(['"s"', '"a b"', '""', '"say \\"hi\\""', '"tail  "', '"q\\""', '"\\\\"'], r.randint(2, 3))])
        if r.random() < 0.1:
            return ("offsetof", (("struct", "struct", "S"), [], []), r.choice([["f"], ["f", "g"], ["f", 2], ["arr", 1, "g"]]))
        return ("const", "string", r.choice(['"s"', '"a b"', '"q\\"uote"', '"\\\\"', 'L"w"', '""', 'u8"u"', '"caf\u00e9 \u65e5\u672c"', 'u8"\U0001f600!"', 'L"\u00fc\u00df"', '"\t tab"', '"ff\x0cvt\x0bcr\rfs\x1cnel\x85ls\u2028ps\u2029"',
                                            '"' + "long string literal " * 9 + '"']))

    def initlist(self, depth):
        r = self.rng
        items = []
        for _ in range(r.randint(1, 3)):
            des = []
            if r.random() < 0.35:
                for _ in range(r.randint(1, 2)):
                    des.append(("dfield", r.choice(["f", "g"])) if r.random() < 0.5 else ("dindex", ("const", "int", str(r.randint(0, 3)))))
            val = ("initlist", self.initlist(depth - 1)[1]) if depth > 0 and r.random() < 0.2 else self.expr(max(depth, 0), False)
            items.append((des, val))
        return ("initlist", items)

    # level of a spec expression in the C grammar
    @staticmethod
    def level(e):
        t = e[0]
        if t == "comma":
            return 1
        if t == "assign":
            return 2
        if t == "cond":
            return 3
        if t == "bin":
            return BINOPS[e[1]]
        if t == "cast":
            return 14
        if t in ("un", "pre", "sizeof_e", "sizeof_t", "alignof"):
            return 15
        if t in ("post", "call", "index", "member", "complit", "offsetof"):
            return 16
        return 17

    def emit_expr(self, e, tk, minlevel=1, paren_mode="min", _wrapped=False):
        """Render e so that it is at least at grammar level minlevel; returns the expected AST."""
        r = self.rng
        need = self.level(e) < minlevel
        # pycparser rejects a postfix operator / sizeof directly applied to a compound literal
        # (known finding C01); with avoid_known the literal is parenthesised, which is equally valid C
        if self.avoid_known and e[0] == "complit" and minlevel >= 15:
            need = True
        extra = not _wrapped and ((paren_mode == "full" and e[0] not in ("id", "const")) or (paren_mode == "rand" and r.random() < 0.3))
        # a comma expression wrapped in redundant parentheses as operand of a comma stays nested: never add those
        if extra and e[0] == "comma" and not need:
            extra = False
        if need or extra:
            tk.add("(")
            n = self.emit_expr(e, tk, 1, paren_mode, _wrapped=(paren_mode == "full"))
            tk.add(")")
            return n
        t = e[0]
        E = lambda x, lv: self.emit_expr(x, tk, lv, paren_mode)
        if t == "id":
            i = tk.add(e[1])
            return N("ID", [S(e[1])], i)
        if t == "const":
            i = tk.add(e[2])
            ty = {"int": int_type(e[2]), "float": float_type(e[2]), "char": "char", "string": "string"}[e[1]]
            return N("Constant", [S(ty), S(e[2])], i)
        if t == "strcat":
            i = tk.add(e[1][0])
            val = e[1][0]
            for s2 in e[1][1:]:
                tk.add(s2)
                val = val[:-1] + s2[s2.index('"') + 1:]      # the next piece without its prefix and opening quote
            return N("Constant", [S("string"), S(val)], i)
        if t == "offsetof":
            i = tk.add("offsetof")
            tk.add("(")
            ty = self.emit_typename(e[1], tk)
            tk.add(",")
            node = None
            for j, part in enumerate(e[2]):
                if isinstance(part, str):
                    if j:
                        tk.add(".")
                    pi = tk.add(part)
                    idn = N("ID", [S(part)], pi)
                    node = idn if node is None else N("StructRef", [node, S("."), idn])
                else:
                    tk.add("[")
                    ci = tk.add(str(part))
                    tk.add("]")
                    node = N("ArrayRef", [node, N("Constant", [S("int"), S(str(part))], ci)])
            tk.add(")")
            return N("FuncCall", [N("ID", [S("offsetof")], i), N("ExprList", [L([ty, node])])], i)
        if t == "bin":
            lv = BINOPS[e[1]]
            l = E(e[2], lv)
            tk.add(e[1])
            rr = E(e[3], lv + 1)
            return N("BinaryOp", [S(e[1]), l, rr])
        if t == "assign":
            l = E(e[2], 15)
            tk.add(e[1])
            rr = E(e[3], 2)
            return N("Assignment", [S(e[1]), l, rr])
        if t == "cond":
            c = E(e[1], 4)
            tk.add("?")
            a = E(e[2], 1)
            tk.add(":")
            b = E(e[3], 3)
            return N("TernaryOp", [c, a, b])
        if t == "comma":
            out = []
            for j, x in enumerate(e[1]):
                if j:
                    tk.add(",")
                out.append(E(x, 2))
            return N("ExprList", [L(out)])
        if t == "un":
            tk.add(e[1])
            x = E(e[2], 14)
            return N("UnaryOp", [S(e[1]), x])
        if t == "pre":
            tk.add(e[1])
            x = E(e[2], 15)
            return N("UnaryOp", [S(e[1]), x])
        if t == "post":
            x = E(e[2], 16)
            tk.add(e[1])
            return N("UnaryOp", [S("p" + e[1]), x])
        if t == "sizeof_e":
            tk.add("sizeof")
            x = E(e[1], 15)
            return N("UnaryOp", [S("sizeof"), x])
        if t == "sizeof_t":
            tk.adds("sizeof", "(")
            ty = self.emit_typename(e[1], tk)
            tk.add(")")
            return N("UnaryOp", [S("sizeof"), ty])
        if t == "alignof":
            tk.adds("_Alignof", "(")
            ty = self.emit_typename(e[1], tk)
            tk.add(")")
            return N("UnaryOp", [S("_Alignof"), ty])
        if t == "cast":
            tk.add("(")
            ty = self.emit_typename(e[1], tk)
            tk.add(")")
            x = E(e[2], 14)
            return N("Cast", [ty, x])
        if t == "call":
            f = E(e[1], 16)
            tk.add("(")
            args = []
            for j, x in enumerate(e[2]):
                if j:
                    tk.add(",")
                args.append(E(x, 2))
            tk.add(")")
            return N("FuncCall", [f, N("ExprList", [L(args)]) if args else NONE])
        if t == "index":
            a = E(e[1], 16)
            tk.add("[")
            i = E(e[2], 1)
            tk.add("]")
            return N("ArrayRef", [a, i])
        if t == "member":
            if self.avoid_known and e[1] == "." and e[2][0] == "const" and e[2][1] == "int":
                e = ("member", "->", e[2], e[3])     # known finding C07: `1 .f` is regenerated as `1.f`
            x = E(e[2], 16)
            tk.add(e[1])
            i = tk.add(e[3])
            return N("StructRef", [x, S(e[1]), N("ID", [S(e[3])], i)])
        if t == "complit":
            tk.add("(")
            ty = self.emit_typename(e[1], tk)
            tk.add(")")
            il = self.emit_initlist(e[2], tk, paren_mode)
            return N("CompoundLiteral", [ty, il])
        raise ValueError(t)

    def emit_initlist(self, il, tk, paren_mode="min"):
        tk.add("{")
        out = []
        for j, (des, val) in enumerate(il[1]):
            if j:
                tk.add(",")
            dn = []
            for d in des:
                if d[0] == "dfield":
                    tk.add(".")
                    i = tk.add(d[1])
                    dn.append(N("ID", [S(d[1])], i))
                else:
                    tk.add("[")
                    dn.append(self.emit_expr(d[1], tk, 3, paren_mode))
                    tk.add("]")
            if des:
                tk.add("=")
            v = self.emit_initlist(val, tk, paren_mode) if val[0] == "initlist" else self.emit_expr(val, tk, 2, paren_mode)
            out.append(N("NamedInitializer", [L(dn), v]) if des else v)
        if self.rng.random() < 0.2:
            tk.add(",")
        tk.add("}")
        return N("InitList", [L(out)])

    # ---------------- types ----------------
    BASES = [["int"], ["char"], ["unsigned", "int"], ["long", "long"], ["double"], ["float"], ["short"], ["unsigned", "char"],
             ["long", "double"], ["_Bool"], ["signed", "char"], ["unsigned", "long", "int"]]

    def base(self, allow_void=False):
        r = self.rng
        k = r.randint(0, 11)
        if k == 0 and self.typedefs:
            return ("typedef", r.choice(self.typedefs))
        if k == 1:
            return ("struct", r.choice(["struct", "union"]), r.choice(["S", "Node", "U1"]))
        if k == 2:
            return ("enum", r.choice(["E", "Color"]))
        if k == 3 and allow_void:
            return ("names", ["void"])
        return ("names", r.choice(self.BASES))

    def derivs(self, depth, abstract=False, in_param=False):
        """derivation list from the identifier outward"""
        r = self.rng
        out = []
        for _ in range(r.randint(0, depth)):
            k = r.randint(0, 5)
            if k <= 2:
                out.append(("ptr", r.sample(["const", "volatile", "restrict"], r.randint(0, 1))))
            elif k <= 4:
                # an array of functions / function returning array or function are invalid C: keep it valid
                if out and out[-1][0] == "fun":
                    out.append(("ptr", []))
                    continue
                form = r.randint(0, 6) if in_param and not out else r.randint(0, 1)
                if form == 0:
                    out.append(("arr", "empty", None, []) if not out else ("arr", "expr", ("const", "int", str(r.randint(1, 9))), []))
                elif form == 1:
                    out.append(("arr", "expr", ("const", "int", str(r.randint(1, 9))), []))
                elif form == 2:
                    out.append(("arr", "star", None, []))
                elif form == 3:
                    out.append(("arr", "static_first", ("id", "n"), r.sample(["const", "restrict"], r.randint(0, 1))))
                elif form == 4:
                    out.append(("arr", "static_last", ("id", "n"), [r.choice(["const", "volatile"])]))
                elif form == 6:
                    out.append(("arr", "quals_star", None, r.sample(["const", "volatile", "restrict"], r.randint(1, 2))))
                else:
                    out.append(("arr", "quals", ("id", "n") if r.random() < 0.5 else None, [r.choice(["const", "restrict"])]))
            else:
                if out and out[-1][0] in ("fun", "arr"):
                    out.append(("ptr", []))
                    continue
                out.append(("fun", self.params(depth - 1)))
        return out

    def params(self, depth):
        r = self.rng
        k = r.randint(0, 5)
        if k == 0:
            return ("empty",)
        if k == 1:
            return ("void",)
        ps = []
        for i in range(r.randint(1, 3)):
            named = r.random() < 0.6
            ps.append((self.base(), self.derivs(max(depth, 0), abstract=not named, in_param=True), self.fresh("p") if named else None,
                       r.sample(["const", "volatile"], r.randint(0, 1))))
        return ("list", ps, r.random() < 0.2)

    def typename(self, depth):
        if self.rng.random() < 0.05:
            q = self.rng.choice(["const", "volatile"])
            return (self.base(), self.derivs(depth, abstract=True), [q, q])          # a repeated qualifier is valid C99 (6.7.3p4)
        if self.rng.random() < 0.08:
            inner = (self.base(), [d for d in self.derivs(1, abstract=True) if d[0] == "ptr"], [])
            return (("atomic", inner), self.derivs(max(depth - 1, 0), abstract=True), [])
        return (self.base(), self.derivs(depth, abstract=True), self.rng.sample(["const", "volatile"], 1) if self.rng.random() < 0.2 else [])

    def emit_base(self, b, tk):
        """returns the expected innermost type node"""
        if b[0] == "names":
            for n in b[1]:
                tk.add(n)
            return N("IdentifierType", [strs(b[1])])
        if b[0] == "typedef":
            tk.add(b[1])
            return N("IdentifierType", [strs([b[1]])])
        if b[0] == "struct":
            tk.add(b[1])
            i = tk.add(b[2])
            return N("Struct" if b[1] == "struct" else "Union", [S(b[2]), NONE], i)
        if b[0] == "enum":
            tk.add("enum")
            tk.add(b[1])
            return N("Enum", [S(b[1]), NONE])
        if b[0] == "atomic":
            # the _Atomic ( type-name ) specifier: in a type name it stays a nested Typename with quals ['_Atomic']
            tk.adds("_Atomic", "(")
            ib, iders, _q = b[1]
            ibn = self.emit_base(ib, tk)
            chain, _ = self.emit_declarator(iders, None, tk)
            tk.add(")")
            return N("Typename", [NONE, strs(["_Atomic"]), NONE, chain(ibn, [])])
        if b[0] == "structdef":
            return self.emit_structdef(b, tk)
        if b[0] == "enumdef":
            return self.emit_enumdef(b, tk)
        raise ValueError(b)

    def emit_declarator(self, derivs, name, tk):
        """Render pointer/array/function derivations around the name (or nothing when abstract).
        Returns a function base_node, decl_quals -> type chain, and the name token index."""
        # build a nested rendering plan from the identifier outward
        # piece = list of tokens emitted lazily; we build strings of tokens as lists
        inner = [("NAME", name)] if name is not None else []
        last = None
        nodes = []   # per derivation: constructor taking the inner type
        for d in derivs:
            if d[0] == "ptr":
                inner = [("T", "*")] + [("T", q) for q in d[1]] + inner
                nodes.append(("ptr", d[1]))
                last = "ptr"
            else:
                if last == "ptr":
                    inner = [("T", "(")] + inner + [("T", ")")]
                if d[0] == "arr":
                    inner = inner + [("ARR", d)]
                    nodes.append(("arr", d))
                else:
                    inner = inner + [("FUN", d[1])]
                    nodes.append(("fun", d[1]))
                last = d[0]
        name_idx = [None]
        built = {}

        def walk(items):
            for it in items:
                if it[0] == "T":
                    tk.add(it[1])
                elif it[0] == "NAME":
                    name_idx[0] = tk.add(it[1])
                elif it[0] == "ARR":
                    built[id(it[1])] = self.emit_arraydim(it[1], tk)
                elif it[0] == "FUN":
                    built[id(it[1])] = self.emit_params(it[1], tk)
        walk(inner)

        def chain(base_node, dquals, start=None):
            t = start if start is not None else N("TypeDecl", [S(name) if name is not None else NONE, strs(dquals), NONE, base_node], name_idx[0])
            for kind, d in reversed(nodes):
                if kind == "ptr":
                    t = N("PtrDecl", [strs(d), t])
                elif kind == "arr":
                    dim, dq = built[id(d)]
                    t = N("ArrayDecl", [t, dim, strs(dq)])
                else:
                    t = N("FuncDecl", [built[id(d)], t])
            return t
        return chain, name_idx

    def emit_arraydim(self, d, tk):
        _, form, e, quals = d
        tk.add("[")
        dim = NONE
        dq = []
        if form == "empty":
            pass
        elif form == "expr":
            dim = self.emit_expr(e, tk, 2)
        elif form == "star":
            i = tk.add("*")
            dim = N("ID", [S("*")], i)
        elif form == "quals_star":
            for q in quals:
                tk.add(q)
            i = tk.add("*")
            dim = N("ID", [S("*")], i)
            dq = quals
        elif form == "static_first":
            tk.add("static")
            for q in quals:
                tk.add(q)
            dim = self.emit_expr(e, tk, 2)
            dq = ["static"] + quals
        elif form == "static_last":
            for q in quals:
                tk.add(q)
            tk.add("static")
            dim = self.emit_expr(e, tk, 2)
            dq = quals + ["static"]
        else:
            for q in quals:
                tk.add(q)
            if e is not None:
                dim = self.emit_expr(e, tk, 2)
            dq = quals
        tk.add("]")
        return dim, dq

    def emit_params(self, ps, tk):
        tk.add("(")
        if ps[0] == "empty":
            tk.add(")")
            return NONE
        if ps[0] == "idlist":
            ids = []
            for j, n in enumerate(ps[1]):
                if j:
                    tk.add(",")
                ids.append(N("ID", [S(n)], tk.add(n)))
            tk.add(")")
            return N("ParamList", [L(ids)])
        if ps[0] == "void":
            tk.add("void")
            tk.add(")")
            t = N("Typename", [NONE, strs([]), NONE, N("TypeDecl", [NONE, strs([]), NONE, N("IdentifierType", [strs(["void"])])])])
            return N("ParamList", [L([t])])
        out = []
        for j, (b, ders, name, quals) in enumerate(ps[1]):
            if j:
                tk.add(",")
            for q in quals:
                tk.add(q)
            bn = self.emit_base(b, tk)
            chain, _ = self.emit_declarator(ders, name, tk)
            ty = chain(bn, quals)
            if name is not None:
                out.append(N("Decl", [S(name), strs(quals), L([]), L([]), L([]), ty, NONE, NONE]))
            else:
                out.append(N("Typename", [NONE, strs(quals), NONE, ty]))
        if ps[2]:
            tk.adds(",", "...")
            out.append(N("EllipsisParam", []))
        tk.add(")")
        return N("ParamList", [L(out)])

    def emit_typename(self, tn, tk):
        b, ders, quals = tn
        if b[0] == "atomic":
            # _Atomic ( type-name ) as the specifier of a type name: the same tree as the _Atomic-QUALIFIED inner type
            # (C11 6.7.2.4: the specifier designates the atomic version of the named type), with the outer derivations on top
            tk.adds("_Atomic", "(")
            ib, iders, _q = b[1]
            ibn = self.emit_base(ib, tk)
            ichain, _ = self.emit_declarator(iders, None, tk)
            tk.add(")")
            ochain, _ = self.emit_declarator(ders, None, tk)
            if not iders:
                return N("Typename", [NONE, strs(["_Atomic"]), NONE, ochain(ibn, ["_Atomic"])])
            inner = ichain(ibn, [])
            assert inner[1] == "PtrDecl"
            inner = N("PtrDecl", [strs(list(iders[0][1]) + ["_Atomic"]), inner[2][1]])     # the outermost pointer of the inner type is the atomic object
            return N("Typename", [NONE, strs([]), NONE, ochain(None, [], start=inner)])
        for q in quals:
            tk.add(q)
        bn = self.emit_base(b, tk)
        chain, _ = self.emit_declarator(ders, None, tk)
        return N("Typename", [NONE, strs(quals), NONE, chain(bn, quals)])

    # ---------------- struct / enum definitions ----------------
    def structdef(self, depth):
        r = self.rng
        members = []
        for _ in range(r.randint(1, 3)):
            k = r.random()
            if k < 0.2:
                members.append(("bit", self.base(), self.fresh("m") if r.random() < 0.8 else None, str(r.randint(1, 7))))
            elif k < 0.4:
                # a declarator list mixing plain members, named bit-fields and unnamed bit-fields in any position
                ds = []
                for _ in range(r.randint(2, 4)):
                    kk = r.random()
                    if kk < 0.35:
                        ds.append(("bf", self.fresh("m"), r.choice(["1", "3", "7", "0x4", "010", "0b11", "2u"])))
                    elif kk < 0.6:
                        ds.append(("bf", None, r.choice(["1", "2", "0", "0x3"])))
                    else:
                        ds.append(("plain", self.derivs(1), self.fresh("m")))
                members.append(("mixed", ("names", r.choice([["unsigned"], ["int"], ["unsigned", "int"], ["signed", "char"], ["long"]])), ds))
            else:
                members.append(("mem", self.base() if depth <= 0 or r.random() < 0.8 else self.structdef(depth - 1),
                                [(self.derivs(1), self.fresh("m")) for _ in range(r.randint(1, 2))]))
        return ("structdef", r.choice(["struct", "union"]), self.fresh("T") if r.random() < 0.7 else None, members)

    def emit_structdef(self, b, tk):
        _, kw, tag, members = b
        tk.add(kw)
        ti = tk.add(tag) if tag else None
        bi = tk.add("{")
        decls = []
        for m in members:
            if m[0] == "bit":
                bn = self.emit_base(m[1], tk)
                if m[2] is not None:
                    ni = tk.add(m[2])
                tk.add(":")
                i = tk.add(m[3])
                width = N("Constant", [S("int"), S(m[3])], i)
                ty = N("TypeDecl", [S(m[2]) if m[2] else NONE, strs([]), NONE, bn], ni if m[2] else None)
                decls.append(N("Decl", [S(m[2]) if m[2] else NONE, strs([]), L([]), L([]), L([]), ty, NONE, width]))
            elif m[0] == "mixed":
                bn = self.emit_base(m[1], tk)
                for j, d in enumerate(m[2]):
                    if j:
                        tk.add(",")
                    if d[0] == "plain":
                        chain, _ = self.emit_declarator(d[1], d[2], tk)
                        decls.append(N("Decl", [S(d[2]), strs([]), L([]), L([]), L([]), chain(bn, []), NONE, NONE]))
                    else:
                        ni = tk.add(d[1]) if d[1] is not None else None
                        tk.add(":")
                        i = tk.add(d[2])
                        width = N("Constant", [S(int_type(d[2])), S(d[2])], i)
                        ty = N("TypeDecl", [S(d[1]) if d[1] else NONE, strs([]), NONE, bn], ni)
                        decls.append(N("Decl", [S(d[1]) if d[1] else NONE, strs([]), L([]), L([]), L([]), ty, NONE, width]))
            else:
                bn = self.emit_base(m[1], tk)
                for j, (ders, name) in enumerate(m[2]):
                    if j:
                        tk.add(",")
                    chain, _ = self.emit_declarator(ders, name, tk)
                    decls.append(N("Decl", [S(name), strs([]), L([]), L([]), L([]), chain(bn, []), NONE, NONE]))
            tk.add(";")
        tk.add("}")
        return N("Struct" if kw == "struct" else "Union", [S(tag) if tag else NONE, L(decls)], ti if tag else bi)

    def enumdef(self):
        r = self.rng
        return ("enumdef", self.fresh("E") if r.random() < 0.7 else None,
                [(self.fresh("K"), ("const", "int", str(r.randint(0, 9))) if r.random() < 0.4 else None) for _ in range(r.randint(1, 3))], r.random() < 0.3)

    def emit_enumdef(self, b, tk):
        _, tag, items, trailing = b
        tk.add("enum")
        if tag:
            tk.add(tag)
        tk.add("{")
        out = []
        for j, (name, val) in enumerate(items):
            if j:
                tk.add(",")
            i = tk.add(name)
            v = NONE
            if val is not None:
                tk.add("=")
                v = self.emit_expr(val, tk, 3)
            out.append(N("Enumerator", [S(name), v], i))
        if trailing:
            tk.add(",")
        tk.add("}")
        return N("Enum", [S(tag) if tag else NONE, N("EnumeratorList", [L(out)])])

    # ---------------- declarations ----------------
    def declaration(self, depth, file_scope=True, allow_typedef=True, allow_init=True):
        """Returns a spec; emit with emit_declaration."""
        r = self.rng
        storage = []
        k = r.randint(0, 9)
        is_typedef = allow_typedef and k == 0
        if is_typedef:
            storage = ["typedef"]
        elif k == 1:
            storage = [r.choice(["static", "extern"])]
        elif k == 2 and not file_scope:
            storage = [r.choice(["register", "auto"])]
        quals = r.sample(["const", "volatile"], 1) if r.random() < 0.2 else []
        if quals and r.random() < 0.2:
            quals = quals + quals          # a repeated qualifier is valid C99 (6.7.3p4)
        kb = r.randint(0, 9)
        if kb == 0:
            base = self.structdef(1)
        elif kb == 1:
            base = self.enumdef()
        else:
            base = self.base()
        decls = []
        for _ in range(r.randint(1, 3) if r.random() < 0.3 else 1):
            ders = self.derivs(depth)
            name = self.fresh("T" if is_typedef else "v")
            init = None
            isfun = bool(ders) and ders[0][0] == "fun"
            if allow_init and not is_typedef and not isfun and "extern" not in storage and r.random() < 0.4:
                if ders and ders[0][0] == "arr" or base[0] in ("struct", "structdef"):
                    init = self.initlist(1)
                else:
                    init = self.expr(2, False)
            decls.append((ders, name, init))
        # specifier variety (C99 6.7: specifiers may come in any order)
        extra = {"funcspec": [], "post_quals": [], "align": None, "perm": r.random()}
        allfun = all(d[0] and d[0][0][0] == "fun" for d in decls)
        if not is_typedef:
            if allfun and r.random() < 0.3:
                extra["funcspec"] = r.choice([["inline"], ["_Noreturn"], ["inline", "_Noreturn"], ["_Noreturn", "inline"]])
            if not allfun and r.random() < 0.1 and (file_scope or storage in (["static"], ["extern"])) and storage in ([], ["static"], ["extern"]):
                storage = storage + ["_Thread_local"]
            if not allfun and r.random() < 0.1 and "register" not in storage:
                extra["align"] = ("expr", ("const", "int", r.choice(["8", "16"]))) if r.random() < 0.6 else ("type", (("names", ["double"]), [], []))
        if r.random() < 0.15:
            quals = quals + [q for q in r.sample(["const", "volatile", "_Atomic"], r.randint(1, 2)) if q not in quals]
        if quals and r.random() < 0.3:
            # `_Atomic (` would be the type-specifier form (C11 6.7.2.4p4): keep _Atomic among the prefix specifiers
            movable = [q for q in quals if q != "_Atomic"]
            if movable:
                k = r.randint(1, len(movable))
                extra["post_quals"] = movable[k - 1:]
                quals = [q for q in quals if q not in extra["post_quals"]]
        return ("decl", storage, quals, base, decls, extra)

    def emit_declaration(self, d, tk, register=True):
        _, storage, quals, base, decls = d[:5]
        extra = d[5] if len(d) > 5 else {"funcspec": [], "post_quals": [], "align": None, "perm": 0.0}
        # prefix specifiers in a pseudo-random order fixed by extra["perm"]
        pre = [("st", s) for s in storage] + [("q", q) for q in quals] + [("fs", f) for f in extra["funcspec"]]
        if extra["align"] is not None:
            pre.append(("al", extra["align"]))
        prng = random.Random(extra["perm"])
        prng.shuffle(pre)
        # C allows declaration specifiers in any order: some of them go AFTER the type specifier (`int static x;`, `long const typedef L;`)
        post = [it for it in pre if prng.random() < 0.25 and it != ("q", "_Atomic")]    # `_Atomic (` would read as the _Atomic(type) specifier (C11 6.7.2.4p4)
        pre = [it for it in pre if it not in post]
        post = post + [("q", q) for q in extra["post_quals"]]
        prng.shuffle(post)
        storage_o, quals_o, fs_o, align_nodes = [], [], [], []
        bn = None
        for kind, x in pre + [("base", None)] + post:
            if kind == "base":
                bn = self.emit_base(base, tk)
                continue
            if kind == "st":
                tk.add(x); storage_o.append(x)
            elif kind == "q":
                tk.add(x); quals_o.append(x)
            elif kind == "fs":
                tk.add(x); fs_o.append(x)
            else:
                ai = tk.add("_Alignas")
                tk.add("(")
                an = self.emit_expr(x[1], tk, 3) if x[0] == "expr" else self.emit_typename(x[1], tk)
                tk.add(")")
                align_nodes.append(N("Alignas", [an], ai))
        storage, quals = storage_o, quals_o
        out = []
        for j, (ders, name, init) in enumerate(decls):
            if j:
                tk.add(",")
            chain, _ = self.emit_declarator(ders, name, tk)
            ty = chain(bn, quals)
            iv = NONE
            if init is not None:
                tk.add("=")
                iv = self.emit_initlist(init, tk) if init[0] == "initlist" else self.emit_expr(init, tk, 2)
            if "typedef" in storage:
                out.append(N("Typedef", [S(name), strs(quals), strs(storage), ty]))
                if register:
                    self.typedefs.append(name)
            else:
                out.append(N("Decl", [S(name), strs(quals), L(align_nodes), strs(storage), strs(fs_o), ty, iv, NONE]))
        tk.add(";")
        return out

    # ---------------- statements ----------------
    def stmt(self, depth, in_switch=False, in_loop=False):
        r = self.rng
        if depth <= 0:
            k = r.randint(0, 5)
            if k == 0:
                return ("empty",)
            if k == 1:
                return ("return", self.expr(1) if r.random() < 0.7 else None)
            if k == 2 and (in_loop or in_switch):
                return ("break",)
            if k == 3 and in_loop:
                return ("continue",)
            if k == 4:
                return ("goto", "L1")
            return ("expr", self.expr(2))
        k = r.randint(0, 13)
        if k == 0:
            return ("compound", [self.block_item(depth - 1, in_switch, in_loop) for _ in range(r.randint(0, 3))])
        if k == 1:
            return ("if", self.expr(1), self.stmt(depth - 1, in_switch, in_loop), None)
        if k == 2:
            return ("if", self.expr(1), self.stmt(depth - 1, in_switch, in_loop), self.stmt(depth - 1, in_switch, in_loop))
        if k == 3:
            return ("while", self.expr(1), self.stmt(depth - 1, in_switch, True))
        if k == 4:
            return ("do", self.stmt(depth - 1, in_switch, True), self.expr(1))
        if k == 5:
            form = r.randint(0, 2)
            init = None if form == 0 else self.expr(1) if form == 1 else self.declaration(1, False, False)
            if form == 2 and self.avoid_known:
                # known finding C07: a for-init declaration with several declarators is regenerated wrongly
                init = (init[0], init[1], init[2], init[3], init[4][:1]) + tuple(init[5:])
            return ("for", init, self.expr(1) if r.random() < 0.7 else None, self.expr(1) if r.random() < 0.7 else None,
                    self.stmt(depth - 1, in_switch, True))
        if k == 6:
            items = []
            for _ in range(r.randint(1, 3)):
                labels = [("case", ("const", "int", str(r.randint(0, 20)))) if r.random() < 0.8 else ("default",) for _ in range(r.randint(1, 2))]
                body = [self.stmt(depth - 1, True, in_loop) for _ in range(r.randint(1, 2))]
                if body[0][0] in ("pragma", "static_assert"):
                    body[0] = ("empty",)     # a label is followed by a statement (C99 6.8.1)
                items.append((labels, body))
            pre = [("expr", self.expr(1))] if r.random() < 0.1 else []
            return ("switch", self.expr(1), pre, items)
        if k == 7:
            return ("label", self.fresh("L"), self.stmt(depth - 1, in_switch, in_loop))
        if k == 10:
            return ("switch1", self.expr(1), self.stmt(depth - 1, True, in_loop))
        if k == 8:
            return ("pragma", r.choice(["once", "omp parallel", "pack(1)", "", "omp for  ", "unroll(2)\t", "region x \t "]))
        if k == 9:
            e = self.expr(1, False)
            if self.avoid_known and self.level(e) < 3:
                e = self.primary()     # known finding C07: an assignment as the asserted expression loses its parentheses
            return ("static_assert", e, r.choice([None, '"msg"']))
        return self.stmt(0, in_switch, in_loop)

    def block_item(self, depth, in_switch=False, in_loop=False):
        if self.rng.random() < 0.3:
            return ("declstmt", self.declaration(1, False))
        return self.stmt(depth, in_switch, in_loop)

    def emit_stmt(self, s, tk):
        """returns a list of expected block items (static assertions and declarations give lists)"""
        t = s[0]
        one = lambda x: [x]
        if t == "empty":
            i = tk.add(";")
            return one(N("EmptyStatement", [], i))
        if t == "expr":
            e = self.emit_expr(s[1], tk, 1)
            tk.add(";")
            return one(e)
        if t == "return":
            i = tk.add("return")
            e = self.emit_expr(s[1], tk, 1) if s[1] is not None else NONE
            tk.add(";")
            return one(N("Return", [e], i))
        if t == "break":
            i = tk.add("break")
            tk.add(";")
            return one(N("Break", [], i))
        if t == "continue":
            i = tk.add("continue")
            tk.add(";")
            return one(N("Continue", [], i))
        if t == "goto":
            i = tk.add("goto")
            tk.add(s[1])
            tk.add(";")
            return one(N("Goto", [S(s[1])], i))
        if t == "compound":
            i = tk.add("{")
            items = []
            ntd = len(self.typedefs)          # block scope: typedef names declared inside end here
            for b in s[1]:
                items += self.emit_stmt(b, tk)
            del self.typedefs[ntd:]
            tk.add("}")
            return one(N("Compound", [L(items) if s[1] else NONE], i))
        if t == "declstmt":
            return self.emit_declaration(s[1], tk)
        if t == "if":
            i = tk.add("if")
            tk.add("(")
            c = self.emit_expr(s[1], tk, 1)
            tk.add(")")
            # dangling else: a then-branch that ends in an else-less if would capture our else: brace it
            th = s[2]
            if s[3] is not None and self.open_if(th):
                th = ("compound", [th])
            a = self.sub(th, tk)
            b = NONE
            if s[3] is not None:
                tk.add("else")
                b = self.sub(s[3], tk)
            return one(N("If", [c, a, b], i))
        if t == "while":
            i = tk.add("while")
            tk.add("(")
            c = self.emit_expr(s[1], tk, 1)
            tk.add(")")
            b = self.sub(s[2], tk)
            return one(N("While", [c, b], i))
        if t == "do":
            i = tk.add("do")
            b = self.sub(s[1], tk)
            tk.adds("while", "(")
            c = self.emit_expr(s[2], tk, 1)
            tk.adds(")", ";")
            return one(N("DoWhile", [c, b], i))
        if t == "for":
            i = tk.add("for")
            tk.add("(")
            init = NONE
            if s[1] is None:
                tk.add(";")
            elif s[1][0] == "decl":
                init = N("DeclList", [L(self.emit_declaration(s[1], tk))], i)
            else:
                init = self.emit_expr(s[1], tk, 1)
                tk.add(";")
            c = self.emit_expr(s[2], tk, 1) if s[2] is not None else NONE
            tk.add(";")
            n = self.emit_expr(s[3], tk, 1) if s[3] is not None else NONE
            tk.add(")")
            b = self.sub(s[4], tk)
            return one(N("For", [init, c, n, b], i))
        if t == "switch":
            i = tk.add("switch")
            tk.add("(")
            c = self.emit_expr(s[1], tk, 1)
            tk.add(")")
            prs = []
            if self.switch_pragmas and self.rng.random() < 0.06:
                # pragma lines between the switch head and its body: each appears once, at its place (wrapped with the body in a
                # Compound, as in front of any sub-statement) - and the body is the regrouped body all the same
                for _ in range(self.rng.randint(1, 2)):
                    prs += self.emit_stmt(("pragma", self.rng.choice(["omp sw", "unroll", ""])), tk)
            bi = tk.add("{")
            items = []
            for p in s[2]:
                items += self.emit_stmt(p, tk)
            for labels, body in s[3]:
                lab_nodes = []
                for lb in labels:
                    if lb[0] == "case":
                        li = tk.add("case")
                        e = self.emit_expr(lb[1], tk, 3)
                        tk.add(":")
                        lab_nodes.append(("Case", e, li))
                    else:
                        li = tk.add("default")
                        tk.add(":")
                        lab_nodes.append(("Default", None, li))
                stmts = []
                for b in body:
                    stmts += self.emit_stmt(b, tk)
                # consecutive labels are siblings; the statements go under the last one
                for j, (cls, e, li) in enumerate(lab_nodes):
                    st = L(stmts) if j == len(lab_nodes) - 1 else L([])
                    items.append(N("Case", [e, st], li) if cls == "Case" else N("Default", [st], li))
            tk.add("}")
            if prs:
                return one(N("Switch", [c, N("Compound", [L(prs + [N("Compound", [L(items)], bi)])])], i))
            return one(N("Switch", [c, N("Compound", [L(items)], bi)], i))
        if t == "switch1":
            i = tk.add("switch")
            tk.add("(")
            c = self.emit_expr(s[1], tk, 1)
            tk.add(")")
            b = self.sub(s[2], tk)
            if b[1] == "Compound" and b[2][0] == NONE:
                b = N("Compound", [L([])], b[3])      # fix_switch_cases rebuilds the body: `{}` becomes an empty list
            return one(N("Switch", [c, b], i))
        if t == "label":
            i = tk.add(s[1])
            tk.add(":")
            b = self.sub(s[2], tk)
            return one(N("Label", [S(s[1]), b], i))
        if t == "pragma":
            tk.t.append(("#pragma " + s[1] if s[1] else "#pragma", "PRAGMA", "pragma"))
            return one(N("Pragma", [S(s[1])]))
        if t == "static_assert":
            i = tk.add("_Static_assert")
            tk.add("(")
            c = self.emit_expr(s[1], tk, 3)
            m = NONE
            if s[2] is not None:
                tk.add(",")
                mi = tk.add(s[2])
                m = N("Constant", [S("string"), S(s[2])], mi)
            tk.add(")")
            si = tk.add(";")
            # pycparser's static_assert production stops at ')': inside a block the ';' is an empty statement
            return [N("StaticAssert", [c, m], i), N("EmptyStatement", [], si)]
        raise ValueError(t)

    def open_if(self, s):
        """does statement s end with an if that has no else (C99 6.8.4.1p3)?"""
        t = s[0]
        if t == "if":
            return s[3] is None or self.open_if(s[3])
        if t in ("while",):
            return self.open_if(s[2])
        if t == "for":
            return self.open_if(s[4])
        if t in ("label", "switch1"):
            return self.open_if(s[2])
        return False

    def sub(self, s, tk):
        """a sub-statement slot: exactly one statement. Declarations, pragmas and static assertions are
        not generated here (they are block items / documented special cases)."""
        if s[0] in ("declstmt", "pragma", "static_assert"):
            s = ("compound", [s])
        if self.rng.random() < 0.08:
            # pragma lines in front of a sub-statement: the parser wraps pragmas + statement in a Compound
            prs = []
            for _ in range(self.rng.randint(1, 2)):
                prs += self.emit_stmt(("pragma", self.rng.choice(["omp for", "unroll", ""])), tk)
            st = self.emit_stmt(s, tk)[0]
            return N("Compound", [L(prs + [st])])
        r = self.emit_stmt(s, tk)
        return r[0]

    # ---------------- translation unit ----------------
    def funcdef(self, depth):
        r = self.rng
        name = self.fresh("fn")
        ps = self.params(1)
        if ps[0] == "list":
            ps = ("list", [(b, d, n if (n is not None or r.random() < 0.25) else self.fresh("p"), q) for b, d, n, q in ps[1]], ps[2])
        kr = None
        if r.random() < 0.12:
            # old-style (K&R) definition: identifier list, then one declaration per group of parameters
            names = [self.fresh("p") for _ in range(r.randint(1, 5))]
            ps = ("idlist", names)
            kr, rest = [], list(names)
            r.shuffle(rest)
            while rest:
                take = rest[: r.randint(1, 2)]
                rest = rest[len(take):]
                kr.append(("decl", [r.choice(["register"])] if r.random() < 0.15 else [], r.sample(["const", "volatile"], r.randint(0, 1)),
                           ("names", r.choice(self.BASES)), [(self.derivs(1), n, None) for n in take]))
        body = ("compound", [self.block_item(depth) for _ in range(r.randint(0, 4))])
        storage = [r.choice(["static", "extern"])] if r.random() < 0.2 else []
        fspec = ["inline"] if r.random() < 0.1 else []
        return ("funcdef", storage, fspec, self.base(allow_void=True), self.derivs(1)[:1] if r.random() < 0.2 else [], name, ps, body, kr)

    def emit_funcdef(self, f, tk):
        _, storage, fspec, base, retders, name, ps, body = f[:8]
        kr = f[8] if len(f) > 8 else None
        retders = [d for d in retders if d[0] == "ptr"]
        for s in storage:
            tk.add(s)
        for s in fspec:
            tk.add(s)
        bn = self.emit_base(base, tk)
        chain, nidx = self.emit_declarator([("fun", ps)] + retders, name, tk)
        ty = chain(bn, [])
        decl = N("Decl", [S(name), strs([]), L([]), strs(storage), strs(fspec), ty, NONE, NONE], nidx[0])
        pd = NONE
        if kr is not None:
            pds = []
            for d in kr:
                pds += self.emit_declaration(d, tk, register=False)
            pd = L(pds)
        b = self.emit_stmt(body, tk)[0]
        return N("FuncDef", [decl, pd, b], nidx[0])

    def program(self, size=4, depth=2):
        """-> (tokens, expected FileAST)"""
        tk = Toks()
        ext = []
        for _ in range(size):
            k = self.rng.randint(0, 9)
            if k <= 4:
                ext += self.emit_declaration(self.declaration(2), tk)
            elif k <= 8:
                ext.append(self.emit_funcdef(self.funcdef(depth), tk))
            else:
                ext += self.emit_stmt(("pragma", "top"), tk)
        return tk.t, N("FileAST", [L(ext)])


# ---------------------------------------------------------------------------
# layout: tokens -> text, recording where every token starts
def layout(tokens, rng, mode="random", filename="f.c", directives=True):
    """mode: 'single' (one line, single blanks), 'lines' (one token per line), 'random'
    (random blanks/tabs/newlines, no blank where C allows adjacency, linemarkers between tokens),
    'glued' (no white space wherever two tokens may touch), 'samecoord' (one token per line, each under `# 1 "same.h"`).
    Returns (text, positions) with positions[i] = (file, line, col) of token i."""
    from lexcorr import may_adjoin
    out = []
    line, col, cur_file = 1, 1, filename
    pos = []

    def emit(s):
        nonlocal line, col
        out.append(s)
        for ch in s:
            if ch == "\n":
                line += 1
                col = 1
            else:
                col += 1

    prev = None
    for t in tokens:
        sp, _, kind = t
        if kind == "pragma":
            if col != 1:
                emit("\n")
            if mode == "random" and sp.startswith("#pragma"):
                # blanks and tabs between `#`, `pragma` and the text are layout too
                body = sp[len("#pragma"):].lstrip(" ")
                lead = rng.choice(["", "", " ", "\t"])
                mid = rng.choice(["", "", " ", "\t", "  "])
                gap = rng.choice([" ", " ", "\t", "  ", " \t", "\t "]) if body else rng.choice(["", " ", "\t"])
                emit(lead)
                # (file, line, column of '#', column of the word pragma, column of the text)
                pos.append((cur_file, line, col, col + 1 + len(mid), col + 1 + len(mid) + 6 + len(gap)))
                emit("#" + mid + "pragma" + gap + body + "\n")
            else:
                pos.append((cur_file, line, col))
                emit(sp + "\n")
            prev = None
            continue
        if prev is not None:
            if mode == "single":
                emit(" ")
            elif mode == "lines":
                emit("\n")
            elif mode == "glued":
                # no white space wherever C allows two tokens to touch
                if not may_adjoin(prev, t):
                    emit(" ")
            elif mode == "samecoord":
                emit("\n")
            else:
                if may_adjoin(prev, t) and rng.random() < 0.35:
                    pass
                else:
                    emit(rng.choice([" ", " ", "  ", "\t", "\n", "\n  ", " \n"]))
        if mode == "random" and directives and rng.random() < 0.06:
            if col != 1:
                emit("\n")
            # a run of one to three directives of every form (with / without the word `line`, with / without a file name,
            # with linemarker flags, indented, separated by blank lines or not)
            for _ in range(rng.choice([1, 1, 1, 2, 2, 3])):
                nl = rng.choice([1, 1, 2, 3, rng.randint(1, 9000)])      # small numbers too: positions that repeat under another file name
                emit(rng.choice(["", "", " ", "\t"]))
                form = rng.randint(0, 3)
                if form == 0:
                    nf = rng.choice(["inc/a.h", "b.c", "dir/sub/c.h", "", "inc/my\\\"quoted\\\".h", "w\\\\in\\\\x.h"])
                    emit(f"# {nl} \"{nf}\"{rng.choice(['', ' 1', ' 2 3'])}\n")
                    cur_file = nf
                elif form == 1:
                    nf = rng.choice(["inc/a.h", "x y.c", "", "q\\\"uote.c"])
                    emit(f"#line {nl} \"{nf}\"\n")
                    cur_file = nf
                elif form == 2:
                    emit(f"#line {nl}\n")
                else:
                    emit(f"#{rng.choice([' ', '  ', chr(9)])}{nl}\n")
                line = nl
                if rng.random() < 0.2:
                    emit("\n")
            emit(rng.choice(["", "  ", "\t"]))
        if mode == "samecoord":
            # every token gets the same file, line and column: a file included twice, or generated code under one #line
            emit('# 1 "same.h"\n')
            cur_file, line = "same.h", 1
        pos.append((cur_file, line, col))
        emit(sp)
        prev = t
    emit("\n" if mode != "single" or rng.random() < 0.5 else "")
    return "".join(out), pos


def strip_tok(e):
    if e[0] == "node":
        return ("node", e[1], [strip_tok(f) for f in e[2]], None)
    if e[0] == "list":
        return ("list", [strip_tok(x) for x in e[1]])
    return e


def diff(expected, actual, path="ast"):
    """first difference between an expected description and from_py(actual) (coordinates ignored), or None"""
    if expected[0] != actual[0]:
        return f"{path}: expected {expected[0]} {str(expected)[:80]} got {str(actual)[:80]}"
    if expected[0] == "str":
        return None if expected[1] == actual[1] else f"{path}: expected {expected[1]!r} got {actual[1]!r}"
    if expected[0] == "none":
        return None
    if expected[0] == "list":
        if len(expected[1]) != len(actual[1]):
            return f"{path}: list length {len(expected[1])} expected, got {len(actual[1])}"
        for i, (a, b) in enumerate(zip(expected[1], actual[1])):
            d = diff(a, b, f"{path}[{i}]")
            if d:
                return d
        return None
    if expected[1] != actual[1]:
        return f"{path}: expected class {expected[1]} got {actual[1]}"
    if len(expected[2]) != len(actual[2]):
        return f"{path}: field count"
    for i, (a, b) in enumerate(zip(expected[2], actual[2])):
        d = diff(a, b, f"{path}.{expected[1]}.{i}")
        if d:
            return d
    return None
