"""Lexer: implementation runner, canonical form, generators, direct oracle.

The token vocabulary and the adjacency rule below are written from ISO C99
6.4 (and the C11 / extension items pycparser documents), not from c_lexer.py.
"""
import itertools, signal
from lib import *


class Timeout(Exception):
    pass


def _alarm(signum, frame):
    raise Timeout()


def with_timeout(seconds, fn, *a):
    """run fn(*a) under a limit of `seconds` of this process's CPU time (ITIMER_VIRTUAL): a loaded machine does not turn a
    slow wall clock into a timeout"""
    old = signal.signal(signal.SIGVTALRM, _alarm)
    signal.setitimer(signal.ITIMER_VIRTUAL, seconds)
    try:
        return fn(*a)
    finally:
        signal.setitimer(signal.ITIMER_VIRTUAL, 0)
        signal.signal(signal.SIGVTALRM, old)


def impl_lex_items(text, filename=""):
    """Run the real CLexer with recording callbacks (no scope: every identifier is ID)."""
    from pycparser.c_lexer import CLexer
    items = []
    lx = CLexer(error_func=lambda msg, line, col: items.append(("E", msg, str(line), str(col), lx.filename)),
                on_lbrace_func=lambda: None, on_rbrace_func=lambda: None,
                type_lookup_func=lambda name: False)
    lx.input(text, filename)
    budget = 4 * len(text) + 16
    while True:
        budget -= 1
        if budget < 0:
            items.append(("NONTERMINATION",))
            break
        try:
            tok = lx.token()
        except AssertionError:
            items.append(("C",))
            break
        if tok is None:
            break
        items.append(("T", tok.type, tok.value, str(tok.lineno), str(tok.column), lx.filename))
    else:
        pass
    if not items or items[-1][0] not in ("C", "NONTERMINATION"):
        items.append(("F", lx.filename))
    return items


def canon_items(items):
    return RS.join(US.join(i) for i in items)


def impl_lex(text, filename=""):
    try:
        return canon_items(with_timeout(10, impl_lex_items, text, filename))
    except Timeout:
        return "TIMEOUT"
    except Exception as e:   # anything else escaping the lexer
        return "EXC " + type(e).__name__


def parse_items(canon):
    return [tuple(r.split(US)) for r in canon.split(RS)] if canon else []


# ---------------------------------------------------------------------------
# generators
ALPHA20 = ["a", "0", "1", "8", "x", ".", "'", '"', "\\", "#", "\n", " ", "+", "-", "*", "/", "u", "L", "e", "{"]


def all_strings(alphabet, maxlen):
    for n in range(0, maxlen + 1):
        for t in itertools.product(alphabet, repeat=n):
            yield "".join(t)


# class alphabet: representatives and boundary members of the lexer's character classes
CLASS_ALPHA = list("0178 9afFxXbBuUlLeEpP.+-'\"\\\n\t #$_zZ?*/=<>&|!~^%()[]{},;:@`") + ["\r", "\f", "\x00", "\x7f", "\u0663", "\u00e9", "\u00b2", "\uff11", "\U0001d7d8", "é"]


def random_string(rng, maxlen=24):
    n = rng.randint(1, maxlen)
    return "".join(rng.choice(CLASS_ALPHA) for _ in range(n))


# ---- spec token vocabulary (C99 6.4.1, 6.4.6; C11 additions pycparser documents) ----
C99_KEYWORDS = """auto break case char const continue default do double else enum extern float for goto if inline
int long register restrict return short signed sizeof static struct switch typedef union unsigned void volatile
while _Bool _Complex""".split()
C11_KEYWORDS = "_Alignas _Alignof _Atomic _Noreturn _Static_assert _Thread_local".split()
EXT_KEYWORDS = ["__int128", "offsetof", "_Pragma"]

PUNCT = {  # spelling -> pycparser token class name
    "[": "LBRACKET", "]": "RBRACKET", "(": "LPAREN", ")": "RPAREN", "{": "LBRACE", "}": "RBRACE", ".": "PERIOD",
    "->": "ARROW", "++": "PLUSPLUS", "--": "MINUSMINUS", "&": "AND", "*": "TIMES", "+": "PLUS", "-": "MINUS",
    "~": "NOT", "!": "LNOT", "/": "DIVIDE", "%": "MOD", "<<": "LSHIFT", ">>": "RSHIFT", "<": "LT", ">": "GT",
    "<=": "LE", ">=": "GE", "==": "EQ", "!=": "NE", "^": "XOR", "|": "OR", "&&": "LAND", "||": "LOR", "?": "CONDOP",
    ":": "COLON", ";": "SEMI", "...": "ELLIPSIS", "=": "EQUALS", "*=": "TIMESEQUAL", "/=": "DIVEQUAL",
    "%=": "MODEQUAL", "+=": "PLUSEQUAL", "-=": "MINUSEQUAL", "<<=": "LSHIFTEQUAL", ">>=": "RSHIFTEQUAL",
    "&=": "ANDEQUAL", "^=": "XOREQUAL", "|=": "OREQUAL", ",": "COMMA",
}
SAFE = set("()[]{};,?~")


def kw_class(k):
    return k.upper()


def gen_identifier(rng):
    first = "abcdefghijklmnopqrstuvwxyzABCDEFGHIJKLMNOPQRSTUVWXYZ_$"
    rest = first + "0123456789"
    # words that are keywords of later C revisions, of C++ or of compilers' extension sets, macros of the standard headers, or
    # keywords in another letter case: in C99 / C11 they are ordinary identifiers
    LOOKALIKES = ["alignas", "alignof", "static_assert", "thread_local", "bool", "true", "false", "nullptr", "typeof", "typeof_unqual", "constexpr",
                  "noreturn", "complex", "imaginary", "atomic", "generic", "asm", "fortran", "class", "new", "this", "template", "namespace", "try",
                  "Int", "INT", "If", "WHILE", "Return", "Sizeof", "_bool", "_Bool_", "_alignas", "_Atomics", "_Static_asserts", "restrict_", "inline2",
                  "offsetof_", "_Pragma_", "pragma", "line", "define", "defined", "include", "NULL", "size_t", "__func__", "_", "__", "$", "_1", "e1", "x0", "u8x", "L_", "u_", "U8"]
    while True:
        r_ = rng.random()
        if r_ < 0.12:
            s = rng.choice(LOOKALIKES)
        elif r_ < 0.32:
            # a keyword with something glued to it is an ordinary identifier (longest match): int$x, for_each, case9, do$, _Boolean
            s = rng.choice(C99_KEYWORDS + C11_KEYWORDS) + rng.choice(["$", "_", "9", "x"]) + "".join(rng.choice(rest) for _ in range(rng.randint(0, 3)))
        else:
            s = rng.choice(first) + "".join(rng.choice(rest) for _ in range(rng.randint(0, 6)))
        if s not in C99_KEYWORDS + C11_KEYWORDS + EXT_KEYWORDS and s not in ("L", "u", "U", "u8"):
            return s


def gen_int(rng):
    suf = rng.choice(["", "u", "U", "l", "L", "ul", "UL", "lu", "LU", "ll", "LL", "ull", "ULL", "llu", "LLU", "uLL", "Ull", "uL", "Lu"])
    form = rng.randint(0, 3)
    if form == 0:
        body = rng.choice("123456789") + "".join(rng.choice("0123456789") for _ in range(rng.randint(0, 5)))
        return body + suf, "INT_CONST_DEC"
    if form == 1:
        body = "0" + "".join(rng.choice("01234567") for _ in range(rng.randint(0, 5)))
        return body + suf, "INT_CONST_OCT"   # C99 6.4.4.1: 0 is an octal constant
    if form == 2:
        body = rng.choice(["0x", "0X"]) + "".join(rng.choice("0123456789abcdefABCDEF") for _ in range(rng.randint(1, 6)))
        return body + suf, "INT_CONST_HEX"
    body = rng.choice(["0b", "0B"]) + "".join(rng.choice("01") for _ in range(rng.randint(1, 6)))
    return body + suf, "INT_CONST_BIN"


def gen_float(rng):
    d = lambda a, b: "".join(rng.choice("0123456789") for _ in range(rng.randint(a, b)))
    h = lambda a, b: "".join(rng.choice("0123456789abcdefABCDEF") for _ in range(rng.randint(a, b)))
    suf = rng.choice(["", "f", "F", "l", "L"])
    form = rng.randint(0, 5)
    if form == 0:
        return d(0, 3) + "." + d(1, 3) + rng.choice(["", "e" + rng.choice(["", "+", "-"]) + d(1, 2)]) + suf, "FLOAT_CONST"
    if form == 1:
        return d(1, 3) + "." + rng.choice(["", "E" + rng.choice(["", "+", "-"]) + d(1, 2)]) + suf, "FLOAT_CONST"
    if form == 2:
        return d(1, 3) + rng.choice("eE") + rng.choice(["", "+", "-"]) + d(1, 2) + suf, "FLOAT_CONST"
    exp = rng.choice("pP") + rng.choice(["", "+", "-"]) + d(1, 2)
    if form == 3:
        return rng.choice(["0x", "0X"]) + h(1, 3) + exp + suf, "HEX_FLOAT_CONST"
    if form == 4:
        return rng.choice(["0x", "0X"]) + h(0, 2) + "." + h(1, 3) + exp + suf, "HEX_FLOAT_CONST"
    return rng.choice(["0x", "0X"]) + h(1, 3) + "." + exp + suf, "HEX_FLOAT_CONST"


SIMPLE_ESC = ["\\'", '\\"', "\\?", "\\\\", "\\a", "\\b", "\\f", "\\n", "\\r", "\\t", "\\v"]


def gen_cchar(rng, quote):
    r = rng.randint(0, 9)
    if r < 5:
        while True:
            c = rng.choice("abcXYZ019 +-*/%<>{}()[]#@`~!.,;:?_$&|^=" + ("\"" if quote == "'" else "'") + "é\u4e2d")
            return c
    if r < 7:
        return rng.choice(SIMPLE_ESC)
    if r < 8:
        return "\\" + "".join(rng.choice("01234567") for _ in range(rng.randint(1, 3)))
    return "\\x" + "".join(rng.choice("0123456789abcdefABCDEF") for _ in range(rng.randint(1, 3)))


def gen_charconst(rng):
    pre, cls = rng.choice([("", "CHAR_CONST"), ("L", "WCHAR_CONST"), ("u8", "U8CHAR_CONST"), ("u", "U16CHAR_CONST"), ("U", "U32CHAR_CONST")])
    return pre + "'" + gen_cchar(rng, "'") + "'", cls


def gen_string(rng):
    pre, cls = rng.choice([("", "STRING_LITERAL"), ("L", "WSTRING_LITERAL"), ("u8", "U8STRING_LITERAL"), ("u", "U16STRING_LITERAL"), ("U", "U32STRING_LITERAL")])
    body = ""
    for _ in range(rng.randint(0, 6)):
        body += gen_cchar(rng, '"')
    return pre + '"' + body + '"', cls


def gen_token(rng):
    r = rng.random()
    if r < 0.22:
        k = rng.choice(C99_KEYWORDS + C11_KEYWORDS + EXT_KEYWORDS)
        return k, kw_class(k), "kw"
    if r < 0.45:
        return gen_identifier(rng), "ID", "id"
    if r < 0.75:
        p = rng.choice(list(PUNCT))
        return p, PUNCT[p], "punct"
    if r < 0.83:
        s, c = gen_int(rng)
        return s, c, "num"
    if r < 0.89:
        s, c = gen_float(rng)
        return s, c, "num"
    if r < 0.94:
        s, c = gen_charconst(rng)
        return s, c, "lit"
    s, c = gen_string(rng)
    return s, c, "lit"


def may_adjoin(t1, t2):
    """C99 6.4p4 (longest match): may t2 follow t1 with no white space and still be two tokens?
    Conservative, decided from the spellings and the token grammar only."""
    s1, _, c1 = t1
    s2, _, c2 = t2
    if s1 in SAFE or s2 in SAFE:
        # '(' etc. neither extend nor are extended by anything
        return True
    if c1 in ("id", "kw") and c2 == "punct":
        return True
    if c1 == "punct" and c2 in ("id", "kw", "num", "lit") and not s1.endswith(".") and not s2.startswith("."):
        return True
    if c1 == "lit" and c2 == "punct":
        return True
    if c1 in ("id", "kw") and c2 == "lit" and s2[0] in "'\"" and s1 not in ("L", "u", "U", "u8"):
        # case'a' / return"s": the quote ends the identifier; only the literal prefixes would glue
        return True
    return False


def render_tokens(rng, toks, directives=True, filename="f.c"):
    """Lay the tokens out with random white space and line directives.
    Returns (text, expected) with expected = [(class, spelling, line, col, file_after)]."""
    text = ""
    line, col = 1, 1          # position of the next character
    cur_file = filename
    expected = []
    n_adj = n_dir = 0

    def emit(s):
        nonlocal text, line, col
        for ch in s:
            text += ch
            if ch == "\n":
                line += 1
                col = 1
            else:
                col += 1

    prev = None
    pend_file = None
    for i, t in enumerate(toks):
        # separator
        if prev is not None:
            if may_adjoin(prev, t) and rng.random() < 0.4:
                sep = ""
                n_adj += 1
            else:
                sep = rng.choice([" ", "  ", "\t", "\n", " \n ", "\n\n", " \t "])
            emit(sep)
        if directives and rng.random() < 0.12:
            # a directive must start its own line (only blanks before '#')
            if col != 1:
                emit("\n")
            kind = rng.randint(0, 3)
            newline = rng.randint(1, 5000)
            if kind == 0:
                emit(f"#line {newline}\n")
                line = newline
            elif kind == 1:
                nf = rng.choice(["a.h", "dir/b.c", "x y.c", "C:\\\\dir\\\\f.h", "inc/my\\\"quoted\\\".h", "q\\\"", "\\\\"])
                emit(f"# {newline} \"{nf}\" {rng.choice(['', '1', '3 4'])}".rstrip() + "\n")
                line, cur_file = newline, nf
            elif kind == 2:
                nf = rng.choice(["q.c", "inc.h"])
                emit(f"  #  line   {newline}   \"{nf}\"\n")
                line, cur_file = newline, nf
            else:
                # the pragma text runs to the end of the line: blanks and tabs at its end belong to it
                body = rng.choice(["", "once", "omp parallel for", "pack(push, 1)", "{weird: ' \" stuff}", "omp for  ", "unroll(4)\t", "region x \t ", "a  b", "include C:\\dir\\", "omp parallel \\", "\\"])
                pl, pc = line, col
                emit(rng.choice(["#pragma", "# pragma", "#\tpragma"]))
                pcol = col - 6
                expected.append(("PPPRAGMA", "pragma", pl, pcol, None))
                if body:
                    emit(rng.choice([" ", "  ", "\t"]))
                    expected.append(("PPPRAGMASTR", body, line, col, None))
                    emit(body)
                elif rng.random() < 0.5:
                    emit(" ")
                emit("\n")
            n_dir += 1
            emit(rng.choice(["", " ", "\t  "]))
        expected.append((t[1], t[0], line, col, None))
        emit(t[0])
        prev = t
    emit(rng.choice(["", "\n", " \n", "  "]))
    return text, expected, n_adj, n_dir


def oracle_roundtrip(text, expected, filename="f.c"):
    """Direct oracle for C09 on the implementation: lexing the rendered text gives back
    exactly the tokens, with spelling, class and position; no error callback."""
    got = impl_lex_items(text, filename)
    toks = [g for g in got if g[0] == "T"]
    errs = [g for g in got if g[0] not in ("T", "F")]
    if errs:
        return f"unexpected lexer error/abort {errs[0]}"
    if len(toks) != len(expected):
        return f"token count {len(toks)} != expected {len(expected)}"
    for g, e in zip(toks, expected):
        if (g[1], g[2], int(g[3]), int(g[4])) != (e[0], e[1], e[2], e[3]):
            return f"token mismatch: got {g[1:5]} expected {e[:4]}"
    return None
