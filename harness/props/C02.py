"""C02 - expression ASTs follow C precedence, associativity and operator binding."""
from lib import *
from progsuite import *
import itertools

PROP_FILES = ["props/C02.v"]
TRANSLATORS = ["tr_lexer.py", "tr_parser_tables.py", "tr_ast.py"]
TRUSTED = ["expected trees come from the generator's own reading of C99 6.5 (harness/cgen.py), independent of c_parser.py"]
ASSUMPTIONS = ["type names inside casts / sizeof are handled by the type-name productions (C03)"]

CONTEXTS = [  # (prefix tokens, minimum grammar level, suffix tokens, path to the expression in the AST)
    ("int v =", 2, ";", lambda a: a.ext[0].init),
    ("void f ( void ) {", 1, "; }", lambda a: a.ext[0].body.block_items[0]),
    ("void f ( void ) { if (", 1, ") ; }", lambda a: a.ext[0].body.block_items[0].cond),
    ("void f ( void ) { g (", 2, ") ; }", lambda a: a.ext[0].body.block_items[0].args.exprs[0]),
    ("int arr2 [", 2, "] ;", lambda a: a.ext[0].type.dim),
    ("void f ( void ) { switch ( 0 ) { case", 3, ": ; } }", lambda a: a.ext[0].body.block_items[0].stmt.block_items[0].expr),
    ("struct S9 { int m :", 3, "; } ;", lambda a: a.ext[0].type.decls[0].bitsize),
    ("enum { K9 =", 3, "} ;", lambda a: a.ext[0].type.values.enumerators[0].value),
    ("void f ( void ) { return", 1, "; }", lambda a: a.ext[0].body.block_items[0].expr),
]

SMALL_OPS = ["+", "*", "<<", "<", "==", "&", "&&", "||", "-", "/", "|", "^"]


def small_trees(g):
    """every tree with <= 2 binary/other operator nodes over a reduced operator set, plus mixed forms"""
    leaves = [("id", "a"), ("id", "b"), ("id", "c")]
    for o1 in SMALL_OPS:
        for o2 in SMALL_OPS:
            yield ("bin", o1, ("bin", o2, leaves[0], leaves[1]), leaves[2])
            yield ("bin", o1, leaves[0], ("bin", o2, leaves[1], leaves[2]))
    for o1 in SMALL_OPS:
        yield ("cond", ("bin", o1, leaves[0], leaves[1]), leaves[2], ("cond", leaves[0], leaves[1], leaves[2]))
        yield ("cond", ("cond", leaves[0], leaves[1], leaves[2]), leaves[0], leaves[1])
        yield ("assign", "=", leaves[0], ("assign", "+=", leaves[1], ("bin", o1, leaves[2], leaves[0])))
        yield ("un", "-", ("bin", o1, leaves[0], leaves[1]))
        yield ("bin", o1, ("un", "!", leaves[0]), ("post", "++", leaves[1]))
        yield ("bin", o1, ("cast", (("names", ["int"]), [], []), leaves[0]), ("sizeof_e", leaves[1]))
        yield ("bin", o1, ("call", leaves[0], [leaves[1], ("bin", o1, leaves[0], leaves[2])]), ("index", leaves[0], leaves[1]))
        yield ("comma", [("bin", o1, leaves[0], leaves[1]), ("comma", [leaves[0], leaves[1]]), leaves[2]])
        yield ("comma", [("comma", [leaves[0], ("bin", o1, leaves[1], leaves[2])]), leaves[2]])
        yield ("comma", [leaves[0], ("comma", [("comma", [leaves[0], leaves[1]]), ("bin", o1, leaves[1], leaves[2])])])
        yield ("call", leaves[0], [("comma", [leaves[1], leaves[2]]), ("cond", leaves[0], ("comma", [("comma", [leaves[0], leaves[1]]), leaves[2]]), leaves[1])])
        yield ("index", leaves[0], ("comma", [("comma", [leaves[1], leaves[2]]), ("bin", o1, leaves[0], leaves[1])]))
        yield ("cond", leaves[0], ("comma", [leaves[1], ("assign", "=", leaves[2], leaves[0])]), ("bin", o1, leaves[1], leaves[2]))
        yield ("member", "->", ("member", ".", ("index", leaves[0], leaves[1]), "f"), "g")
        yield ("un", "*", ("post", "++", leaves[0]))
        yield ("pre", "++", ("un", "*", leaves[0]))
        yield ("sizeof_e", ("un", "*", ("index", leaves[0], leaves[1])))


def long_chains(ctx, su):
    """chains of several hundred operands of ONE operator: left-deep for the binary operators (checked without recursion),
    right-deep for assignment and ?:"""
    from pycparser import c_parser, c_ast
    import sys as _sys
    for op in ["*", "/", "%", "+", "-", "<<", ">>", "<", "<=", ">", ">=", "==", "!=", "&", "^", "|", "&&", "||"]:
        for n in (130, 450, 700):
            ctx.evaluations += 1
            ctx.count("suite:long-chain")
            names = [f"a{i}" for i in range(n)]
            text = "void f(void){ x = " + f" {op} ".join(names) + "; }"
            old = _sys.getrecursionlimit()
            try:
                _sys.setrecursionlimit(max(old, 20000))
                e = c_parser.CParser().parse(text, "f.c").ext[0].body.block_items[0].rvalue
            except RecursionError:
                continue
            except Exception as ex:
                su.violation(text[:200] + " ...", f"a chain of {n} operands of {op} is rejected: {ex}")
                continue
            finally:
                _sys.setrecursionlimit(old)
            k, bad = n - 1, None
            while isinstance(e, c_ast.BinaryOp):
                if e.op != op or not isinstance(e.right, c_ast.ID) or e.right.name != names[k]:
                    bad = f"operand {k} of the chain is not the right operand of the {n - 1 - k}-th BinaryOp from the top"
                    break
                e, k = e.left, k - 1
            if bad is None and not (isinstance(e, c_ast.ID) and e.name == names[0] and k == 0):
                bad = "the chain does not end in its first operand"
            if bad:
                su.violation(text[:200] + " ...", f"a chain of {n} operands of {op} is not the left-deep tree C's grammar gives it: {bad}")
    for n in (130, 450):
        ctx.evaluations += 1
        names = [f"a{i}" for i in range(n)]
        text = "void f(void){ " + " = ".join(names) + "; }"
        try:
            e = c_parser.CParser().parse(text, "f.c").ext[0].body.block_items[0]
        except RecursionError:
            continue
        k = 0
        while isinstance(e, c_ast.Assignment) and isinstance(e.lvalue, c_ast.ID) and e.lvalue.name == names[k]:
            e, k = e.rvalue, k + 1
        if not (isinstance(e, c_ast.ID) and e.name == names[-1] and k == n - 1):
            su.violation(text[:200] + " ...", f"a chain of {n} assignments is not right-deep")


def run(ctx, b, broken):
    su = Suite(ctx, b, broken, "C02")
    long_chains(ctx, su)
    g = cgen.Gen(ctx.rng)
    trees = list(small_trees(g))
    n_rand = 1500 if ctx.tier == "quick" else 20000
    for _ in range(n_rand):
        trees.append(g.expr(ctx.rng.randint(2, 4)))
    ctx.notes["rule"] = "expression trees (systematic small trees over 12 binary operators + ?: / assignment / unary / postfix / cast / sizeof / call / index / member / comma forms, random deeper) x 3 renderings (minimal, full, random redundant parentheses) x 9 expression contexts; non-trivial = at least 2 operator nodes of different kinds; distinct by text"
    for e in trees:
        for mode in ("min", "full", "rand"):
            pre, lvl, suf, getter = CONTEXTS[ctx.rng.randrange(len(CONTEXTS))] if mode != "min" else CONTEXTS[ctx.evaluations % len(CONTEXTS)]
            if lvl > 1 and e[0] == "comma" and False:
                pass
            tk = cgen.Toks()
            for t in pre.split():
                tk.add(t)
            try:
                exp = g.emit_expr(e, tk, lvl, mode)
            except RecursionError:
                continue
            for t in suf.split():
                tk.add(t)
            text, pos = cgen.layout(tk.t, ctx.rng, "single")
            ctx.evaluations += 1
            ctx.count("context:" + pre[:24])
            ctx.count("render:" + mode)
            ops = set(re.findall(r"'(bin|assign|cond|comma|un|pre|post|cast|sizeof_e|sizeof_t|call|index|member|alignof|complit)'", repr(e)))
            if len(ops) >= 2:
                ctx.nontriv(text)
            io = impl_parse(text)
            su.corr(text, io, tag="expression contexts")
            try:
                ast = parse_impl_ast(text)
                d = cgen.diff(exp, from_py(getter(ast)), "expr")
            except Exception as ex:
                d = f"rejected or crashed: {type(ex).__name__}: {ex}"
            if d:
                su.violation(text, "expression tree differs from the C grammar's: " + d, {"expected": cgen.strip_tok(exp)})
            elif len(ctx.samples) < 5 and len(ops) >= 3:
                ctx.sample({"text": text, "render": mode})
    # component correspondence: the abstract climbing loops (ClimbProofs.v) vs CParser._parse_binary_expression
    from lexcorr import PUNCT
    from pycparser import c_parser
    kidx = kind_indices()
    binops = list(cgen.BINOPS)
    climb_bad = []
    nseq = 3000 if ctx.tier == "quick" else 40000
    seqs = [[o] for o in binops] + [[a, c] for a in binops for c in binops]
    for _ in range(nseq):
        seqs.append([ctx.rng.choice(binops) for _ in range(ctx.rng.randint(3, 9))])
    for ops in seqs:
        text = "a0 " + " ".join(f"{o} a{i+1}" for i, o in enumerate(ops))
        ctx.evaluations += 1
        ctx.count("suite:climb-component")
        if len(set(ops)) >= 2:
            ctx.nontriv(text)
        try:
            p = c_parser.CParser()
            p.clex.input(text, "f.c")
            p._tokens = c_parser._TokenStream(p.clex)
            t = p._parse_binary_expression()

            def sx(n):
                if type(n).__name__ == "BinaryOp":
                    return "(" + PUNCT[n.op] + " " + sx(n.left) + " " + sx(n.right) + ")"
                return n.name
            io = sx(t)
        except Exception as ex:
            io = "EXC " + type(ex).__name__
        # direct oracle: left-associative C levels
        def spec(ops):
            # operands a0..an; build by C99 levels with a simple shunting of the spec table
            out, stack = ["a0"], []
            def reduce_():
                o = stack.pop(); r = out.pop(); l = out.pop(); out.append("(" + PUNCT[o] + " " + l + " " + r + ")")
            for i, o in enumerate(ops):
                while stack and cgen.BINOPS[stack[-1]] >= cgen.BINOPS[o]:
                    reduce_()
                stack.append(o); out.append(f"a{i+1}")
            while stack:
                reduce_()
            return out[0]
        want = spec(ops)
        if io != want:
            su.violation(text, f"binary operators grouped as {io}, C's levels give {want}")
        if su.model:
            mo = su.model.raw(" ".join(map(str, [30] + [kidx[PUNCT[o]] for o in ops])))
            ctx.traces += 1
            if mo != io:
                climb_bad.append((text, io, mo))
    if climb_bad:
        t, io, mo = min(climb_bad, key=lambda d: len(d[0]))
        broken.append({"kind": "correspondence", "name": "abstract climb (ClimbProofs.v) vs CParser._parse_binary_expression",
                       "input": t, "implementation": io, "model": mo, "count": len(climb_bad)})
    # hand-written programs (rarely used productions): model and implementation must agree on each, tree and coordinates
    for text, _valid in ZOO:
        ctx.evaluations += 1
        ctx.count("suite:zoo")
        su.corr(text, impl_parse(text), tag="hand-written programs")
    su.finish()
