"""C11 - coordinates point at the real source location of every construct and error."""
from lib import *
from progsuite import *

PROP_FILES = ["props/C11.v"]
TRANSLATORS = ["tr_lexer.py", "tr_parser_tables.py", "tr_ast.py"]
TRUSTED = ["the renderer (harness/cgen.layout) records where each token really starts, independently of the lexer"]
ASSUMPTIONS = ["file component: the theorem proves provenance (a file name given by some directive or the initial name); that it is the most recent one before the token holds only when no line directive lies between the token and the furthest token delivered when the node is built (known deviation, DESIGN section 8 #22)"]


def run(ctx, b, broken):
    su = Suite(ctx, b, broken, "C11")
    ctx.notes["rule"] = "generated programs under 3 layouts (single line, one token per line, random blanks/newlines with #line and linemarkers that change line and file between arbitrary tokens); every node whose coordinate must be the token that spells / starts it is compared with the renderer's recorded position; presence of coordinates on the listed classes; single illegal-character injections for error locations; non-trivial = program with >= 1 line directive and >= 2 lines; distinct by text"
    n = 500 if ctx.tier == "quick" else 6000
    for g, toks, exp in gen_cases(ctx, n):
        for mode in ("single", "lines", "random"):
            text, pos = cgen.layout(toks, ctx.rng, mode)
            ctx.evaluations += 1
            ctx.count("layout:" + mode)
            if "#line" in text or "\n# " in text:
                ctx.nontriv(text)
            io = impl_parse(text)
            su.corr(text, io, tag="coordinates (" + mode + ")")
            try:
                ast = parse_impl_ast(text)
            except Exception as ex:
                su.violation(text, f"generated program rejected: {ex}")
                continue
            d = check_coords(exp, ast, pos)
            if d:
                su.violation(text, "coordinate is not the position of the token that spells the construct: " + d)
                continue
            acc = []
            all_coords(ast, acc)
            files = {p[0] for p in pos} | {"f.c"}
            linecols = {(p[1], p[2]) for p in pos}
            for t, p_ in zip(toks, pos):
                if t[2] == "pragma":      # '#pragma body' is two lexer tokens: 'pragma' (column 2) and the body (column 9)
                    linecols |= {(p_[1], p_[3]), (p_[1], p_[4])} if len(p_) > 3 else {(p_[1], p_[2] + 1), (p_[1], p_[2] + 8)}
            for cname, co in acc:
                if co is None:
                    if cname in MUST_HAVE_COORD:
                        su.violation(text, f"a {cname} node has no coordinate")
                        break
                    continue
                if (co.line, co.column) not in linecols or co.file not in files:
                    su.violation(text, f"{cname} coordinate {co.file}:{co.line}:{co.column} is not the position of any token of the input")
                    break
            if len(ctx.samples) < 4 and mode == "random" and "# " in text:
                ctx.sample({"layout": mode, "text": text[:400]})
        # error location: one illegal character injected between two tokens
        text, pos = cgen.layout(toks, ctx.rng, "random")
        lines = text.split("\n")
        cands = [i for i, l in enumerate(lines) if l and not l.lstrip().startswith("#")]
        if cands:
            li = ctx.rng.choice(cands)
            # find a blank inside the line that is not inside a literal: use token starts recorded on that physical line
            ctx.evaluations += 1
            ctx.count("suite:illegal-char")
            # physical line -> logical (file, line): recompute from pos of a token on that physical line is layout-specific; use 'single' layout instead
            t1, p1 = cgen.layout(toks, ctx.rng, "lines", directives=False)
            k = ctx.rng.randrange(len(toks))
            if toks[k][2] != "pragma" and (k == 0 or toks[k - 1][2] != "pragma"):
                ls = t1.split("\n")
                f, l, c = p1[k]
                ls[l - 1] = "@ " + ls[l - 1]
                io = impl_parse("\n".join(ls))
                su.corr("\n".join(ls), io, tag="error location")
                want = f"E{US}f.c:{l}:1: Illegal character '@'"
                if io != want:
                    su.violation("\n".join(ls), f"illegal character at f.c:{l}:1 reported as {io[:80]!r}")
    # error locations of malformed input at many positions: the location computation of every error path is compared with
    # the model's (directive errors, illegal characters, unterminated literals, parser errors at a given token), under
    # indentation, tabs, preceding lines and a preceding #line
    BAD_LINES = ["#line foo", "# line   12u", "#   3 \"f.c\" x", "#line 3 4", "#line", "#line 5 \"a.c\" junk", "#  7 8", "#line 0x10", "#line 1.5", "# 1 'c'", "#line -3",
                 "#line \"f.c\"", "# \"f.c\" 3", "#include <x.h>", "#define X 1", "#", "#pragma", "#pragmatic", "int x = 1 @ 2;", "int y = `;", "char *s = \"abc;", "int c = 'ab;",
                 "int z = 08;", "int w = 1.2.3;", "int q = 0x;", "int v = '';", "int u = '\\q';", "char *t = \"a\\qb\";", "int a b;", "int f( { }", "int g(void) { return }", "}", "int h = ;",
                 "struct { int } s;", "void k(void) { if }", "int m[;", "typedef int;", "int n = sizeof(;", "x y z;"]
    for bad in BAD_LINES:
        for lead in ("", "   ", "\t ", " \t\t"):
            for pre in ("", "int ok;\n", "\n\n", "#line 40 \"inc.h\"\nint ok2;\n", "# 7\n\n"):
                text = pre + lead + bad + "\nint after;\n"
                ctx.evaluations += 1
                ctx.count("suite:error-locations")
                ctx.nontriv(("errloc", text))
                su.corr(text, impl_parse(text), tag="error location (directed)")
    su.finish()
