"""C15 - ASTs survive repr/eval, pickle and deepcopy unchanged."""
import copy, pickle
from lib import *
from nodecorr import *
import corpus
from parsecorr import show_ast

PROP_FILES = ["props/C15.v"]
TRANSLATORS = ["tr_ast.py"]
TRUSTED = ["CPython's pickle / copy / eval machinery is outside the model; pickle and deepcopy round trips are executed on the implementation (tested, not proved)",
           "repr text of nodes and strings: hand model (NodeModel.v, PyRepr.v) tied by text-exact correspondence"]
ASSUMPTIONS = ["str.isprintable is the table generated from the running interpreter"]


def all_ids(obj, acc):
    if obj is None or isinstance(obj, str):
        return
    if isinstance(obj, list):
        acc.add(id(obj))
        for e in obj:
            all_ids(e, acc)
        return
    acc.add(id(obj))
    for s in getattr(type(obj), "__slots__", ()):
        if s != "__weakref__":
            all_ids(getattr(obj, s, None), acc)


def strip_coord(v):
    if v[0] == "list":
        return ("list", [strip_coord(e) for e in v[1]])
    if v[0] == "node":
        return ("node", v[1], [strip_coord(f) for f in v[2]], None)
    return v


def oracle(node, c_ast, gen=None):
    d0 = from_py(node)
    ns = {k: getattr(c_ast, k) for k in dir(c_ast) if not k.startswith("_")}
    try:
        n2 = eval(repr(node), ns)
    except Exception as e:
        return f"eval(repr(ast)) raised {e!r}"
    if strip_coord(from_py(n2)) != strip_coord(d0):
        return "eval(repr(ast)) is not structurally identical"
    ids0 = set()
    all_ids(node, ids0)
    copies = [("deepcopy", copy.deepcopy(node))]
    for proto in range(2, pickle.HIGHEST_PROTOCOL + 1):
        try:
            copies.append((f"pickle{proto}", pickle.loads(pickle.dumps(node, proto))))
        except Exception as e:
            return f"pickle protocol {proto} raised {e!r}"
    for what, c in copies:
        if from_py(c) != d0:
            return f"{what} copy differs from the original (coordinates included)"
        ids = set()
        all_ids(c, ids)
        if ids & ids0:
            return f"{what} copy shares objects with the original"
    if gen is not None:
        try:
            t0 = gen.visit(node)
        except Exception:
            return None          # the generator does not handle this tree at all (C07's concern)
        for what, c in copies + [("eval-repr", n2)]:
            if gen.visit(c) != t0:
                return f"{what} copy generates different C text"
    return None


def run(ctx, b, broken):
    from pycparser import c_ast, c_parser, c_generator
    cfg = parse_cfg()
    cidx = {name: i for i, (name, _) in enumerate(cfg)}
    model = Model() if b.driver_ok else None
    disagreements = []

    def check(v, suite, node=None, gen=None):
        ctx.evaluations += 1
        ctx.count("suite:" + suite)
        node = node if node is not None else to_py(v, c_ast)
        flat = json.dumps(v)
        if '"list"' in flat and ("\\\\" in flat or "'" in flat or '\\"' in flat or "\\u" in flat):
            ctx.nontriv(flat)
        try:
            bad = oracle(node, c_ast, gen)
        except RecursionError:
            bad = None
        if bad:
            ctx.violation({"property": "C15", "suite": suite, "value": v if len(flat) < 4000 else "(large)", "problem": bad})
            return
        if model:
            mo = model.raw(" ".join(map(str, [13] + enc_value(v, cidx))))
            io_ = repr(node)
            ctx.traces += 1
            if mo != io_:
                disagreements.append(("repr", v, io_, mo))
            # the evaluator of PyEvalTree.v against Python's eval on the implementation's repr text
            ns = {k: getattr(c_ast, k) for k in dir(c_ast) if not k.startswith("_")}
            try:
                ev = show_ast(eval(io_, ns), True)
            except RecursionError:
                ev = None
            if ev is not None:
                me = model.call(15, io_)
                ctx.traces += 1
                if me != ev:
                    disagreements.append(("eval", v, ev, me))
        if len(ctx.samples) < 4:
            ctx.sample({"suite": suite, "value": v if len(flat) < 600 else flat[:600]})

    for v, nt in class_sweep(cfg, ctx.rng):
        check(v, "class-sweep")
    for _ in range(400 if ctx.tier == "quick" else 4000):
        check(random_tree(cfg, ctx.rng, ctx.rng.randint(1, 3)), "random-tree")
    # repr(str) model vs Python on strings
    strs = list(NASTY_STRINGS)
    for _ in range(1500 if ctx.tier == "quick" else 20000):
        n = ctx.rng.randint(0, 8)
        strs.append("".join(chr(ctx.rng.choice([ctx.rng.randint(0, 0x7f), ctx.rng.randint(0x80, 0x2ff), ctx.rng.randint(0x300, 0xffff), ctx.rng.randint(0x10000, 0x10ffff), 39, 34, 92, 10])) for _ in range(n)))
    for s in strs:
        ctx.evaluations += 1
        ctx.count("suite:repr-str")
        try:
            if eval(repr(s)) != s:
                ctx.violation({"property": "C15", "suite": "repr-str", "input": s, "problem": "eval(repr(str)) differs"})
        except Exception:
            pass
        if model:
            mo = model.call(3, s)
            ctx.traces += 1
            if mo != repr(s):
                disagreements.append(("repr-str", ("str", s), repr(s), mo))
    # parser ASTs (corpus)
    gen = c_generator.CGenerator()
    texts = corpus.corpus_texts() + (corpus.big_corpus_texts() if ctx.tier == "thorough" else [])
    for name, text in texts:
        try:
            ast_ = c_parser.CParser().parse(text, name)
        except Exception:
            continue
        exts = ast_.ext if len(ast_.ext) < 400 else ast_.ext[:400]
        for e in exts:
            v = from_py(e)
            check(v, "parser-ast", node=e, gen=gen)
        if len(ast_.ext) < 400:
            # the translation unit as a whole: what the generator does at file level (and anything keyed on node identity or
            # on coordinates) must come out the same for every copy
            check(from_py(ast_), "parser-ast-whole-file", node=ast_, gen=gen)
    # hand-written programs: declarators sharing one struct / union / enum definition, several files named by linemarkers
    import semgen
    from progsuite import ZOO
    DIRECTED = ['# 1 "a.c"\nint a;\n# 1 "inc.h" 1\nstruct s {int x;} p, *q;\n# 3 "a.c" 2\nenum e {A, B} c, d[2]; typedef union u {int i;} U, *PU;\n# 9 "other.h"\nstruct s r;',
                "struct s {int x; struct in {int y;} m, n;} a, b, *c; void f(void){ struct t {int z;} l1, l2; enum {P, Q} e1, e2; }",
                "#pragma top\nint a;\n#line 7\nvoid f(void){\n#pragma in\n a = 1; }\n# 2 \"x.h\"\ntypedef struct {int k;} T1, T2[2];",
                # designators of every form: bare identifiers as array indexes, index expressions, member chains, mixtures
                "enum { LO, HI = 3 }; int a[4] = { [HI] = 5, [LO] = 1 }; int b[2][4] = { [1][HI] = 2, [0][LO + 1] = 3 }; struct P { int m[4]; int k; } p = { .m[HI] = 1, .k = 2, .m = { [LO] = 7 } }; int c[] = { [HI - 1] = 4 };"]
    for text in DIRECTED + semgen.SEMZOO + [t for t, _v in ZOO]:
        try:
            ast_ = c_parser.CParser().parse(text, "d.c")
        except Exception:
            continue
        check(from_py(ast_), "parser-ast-directed", node=ast_, gen=gen)
    if model:
        model.close()
    ctx.notes["rule"] = "non-trivial = a tree with at least one list-valued field and a string needing an escape (quote, backslash, control or non-ASCII); distinct by value"
    if disagreements:
        what, v, io_, mo = min(disagreements, key=lambda d: len(json.dumps(d[1])))
        broken.append({"kind": "correspondence", "name": f"repr/eval model vs Python ({what})", "input": v,
                       "implementation": io_, "model": mo, "count": len(disagreements)})


def replay(ctx, rp, b):
    log(json.dumps(rp, indent=1)[:3000])
    return 0
