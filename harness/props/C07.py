"""C07 - generated C re-parses to the same AST (parse . generate . parse = parse)."""
from lib import *
from progsuite import *
import corpus

PROP_FILES = ["props/C07.v"]
TRANSLATORS = ["tr_lexer.py", "tr_parser_tables.py", "tr_generator_tables.py", "tr_ast.py"]
TRUSTED = ["CGenerator's visit_* methods are not modelled in Coq at this commit: the round trip itself is decided by the direct oracle on the implementation; the theorems cover the mirrored precedence tables"]
ASSUMPTIONS = []


def roundtrip(text, filename="f.c"):
    """None if the property holds on this source, else a description"""
    from pycparser import c_generator, c_parser
    try:
        a1 = c_parser.CParser().parse(text, filename)
    except Exception:
        return None          # not an accepted program: out of the property's domain
    k1 = show_ast(a1, False)
    for rp in (False, True):
        try:
            t1 = c_generator.CGenerator(reduce_parentheses=rp).visit(a1)
        except Exception as e:
            return f"CGenerator(reduce_parentheses={rp}) raised {type(e).__name__}: {e}"
        try:
            a2 = c_parser.CParser().parse(t1, filename)
        except Exception as e:
            return f"generated text does not re-parse (reduce_parentheses={rp}): {type(e).__name__}: {str(e)[:80]}"
        if show_ast(a2, False) != k1:
            return f"re-parsed AST differs from the original (reduce_parentheses={rp})"
        t2 = c_generator.CGenerator(reduce_parentheses=rp).visit(a2)
        if t2 != t1:
            return f"second generation differs from the first (reduce_parentheses={rp})"
    return None


@known_class("assignment_lvalue_not_unary")
def _k1(text, problem):
    return False


def run(ctx, b, broken):
    su = Suite(ctx, b, broken, "C07")
    ctx.notes["rule"] = "accepted programs (generator programs, the repository corpus after cpp, accepted token mutants) x both generator configurations; non-trivial = program with >= 1 nested expression and >= 1 non-trivial declarator; distinct by text"
    replay_known(ctx, roundtrip)
    n = 800 if ctx.tier == "quick" else 10000
    for g, toks, exp in gen_cases(ctx, n, size=(1, 4)):
        text, pos = cgen.layout(toks, ctx.rng, "single")
        ctx.evaluations += 1
        ctx.count("suite:generated")
        if "(" in text and ("*" in text or "[" in text):
            ctx.nontriv(text)
        bad = roundtrip(text)
        if bad:
            su.violation(text, bad)
        elif len(ctx.samples) < 3:
            ctx.sample({"text": text[:300]})
        # accepted mutants
        import props.C06 as C06
        sp = [t[0] + ("\n" if t[2] == "pragma" else "") for t in toks]
        for _ in range(2):
            m = " ".join(C06.mutate(sp, ctx.rng))
            ctx.evaluations += 1
            ctx.count("suite:mutants")
            bad = roundtrip(m)
            if bad:
                su.violation(m, bad)
    for name, text in corpus.corpus_texts() + (corpus.big_corpus_texts() if ctx.tier == "thorough" else []):
        ctx.evaluations += 1
        ctx.count("suite:corpus")
        ctx.nontriv(name)
        bad = roundtrip(text, name)
        if bad:
            su.violation(text if len(text) < 5000 else name, f"{name}: {bad}", filename=name)
    su.finish()
