"""C07 - generated C re-parses to the same AST (parse . generate . parse = parse)."""
from lib import *
from progsuite import *
import corpus

PROP_FILES = ["props/C07.v"]
TRANSLATORS = ["tr_lexer.py", "tr_parser_tables.py", "tr_generator_tables.py", "tr_ast.py"]
TRUSTED = ["the statements of the round-trip theorems are tied to the code directly as well: random members of their language (FuncTrip.edecl) are evaluated by the kernel (utext, unit_toks, unit_emb) and CParser / CLexer / CGenerator must produce exactly that tree, those tokens and that text (harness/langcorr.py)", "CGenerator is hand-modelled (coq/model/Generator.v: every visit_* method, _generate_stmt/_decl/_type, indentation state) and tied text-exactly by correspondence; the round trip for all programs is decided by the direct oracle on the implementation, the theorems cover coordinate-independence (all ASTs), the mirrored precedence tables and kernel-computed round trips on the model"]
ASSUMPTIONS = []


def roundtrip(text, filename="f.c"):
    """None if the property holds on this source, else a description"""
    from pycparser import c_generator, c_parser
    try:
        a1 = c_parser.CParser().parse(text, filename)
    except Exception:
        return None          # not an accepted program: out of the property's domain
    k1 = show_ast(a1, False)
    for rp in (False, True):
        try:
            t1 = c_generator.CGenerator(reduce_parentheses=rp).visit(a1)
        except Exception as e:
            return f"CGenerator(reduce_parentheses={rp}) raised {type(e).__name__}: {e}"
        try:
            a2 = c_parser.CParser().parse(t1, filename)
        except Exception as e:
            return f"generated text does not re-parse (reduce_parentheses={rp}): {type(e).__name__}: {str(e)[:80]}"
        if show_ast(a2, False) != k1:
            return f"re-parsed AST differs from the original (reduce_parentheses={rp})"
        t2 = c_generator.CGenerator(reduce_parentheses=rp).visit(a2)
        if t2 != t1:
            return f"second generation differs from the first (reduce_parentheses={rp})"
    return None


@known_class("assignment_lvalue_not_unary")
def _k1(text, problem):
    return False


def gen_corr(su, ctx, ast, text, bad_list):
    """model generator vs CGenerator, text-exact, both configurations"""
    if su.model is None:
        return
    from pycparser import c_generator
    from nodecorr import enc_value, from_py, parse_cfg
    if not hasattr(su, "_cidx"):
        su._cidx = {n: i for i, (n, _) in enumerate(parse_cfg())}
    enc = enc_value(from_py(ast), su._cidx)
    for rp in (0, 1):
        try:
            io = "OK" + US + c_generator.CGenerator(reduce_parentheses=bool(rp)).visit(ast) + US + "0"
        except RecursionError:
            continue
        except Exception:
            io = "CRASH"
        mo = su.model.raw(" ".join(map(str, [50, rp] + enc)))
        ctx.traces += 1
        if io != mo and mo != "FUEL":
            bad_list.append((text, io, mo, rp))


def run(ctx, b, broken):
    su = Suite(ctx, b, broken, "C07")
    gen_bad = []
    ctx.notes["rule"] = "accepted programs (generator programs, the repository corpus after cpp, accepted token mutants) x both generator configurations; non-trivial = program with >= 1 nested expression and >= 1 non-trivial declarator; distinct by text"
    replay_known(ctx, roundtrip)
    # the language of the round-trip theorems against the implementation (text, tokens, tree; both configurations)
    import langcorr
    langcorr.run(ctx, 40 if ctx.tier == "quick" else 400, broken, "C07")
    # user subclasses of CGenerator that override visit_* methods run first, on a program that has every kind of node:
    # what the plain CGenerator prints afterwards (all the round trips below) must not depend on that
    from pycparser import c_generator as _cg, c_ast as _ca
    over = {}
    for cname in [c for c in dir(_ca) if isinstance(getattr(_ca, c), type) and issubclass(getattr(_ca, c), _ca.Node) and c != "Node"]:
        over["visit_" + cname] = (lambda nm: (lambda self, n: "/*" + nm + "*/"))(cname)
    SubA = type("SubA", (_cg.CGenerator,), {k: v for i, (k, v) in enumerate(sorted(over.items())) if i % 2 == 0})
    SubB = type("SubB", (_cg.CGenerator,), {k: v for i, (k, v) in enumerate(sorted(over.items())) if i % 2 == 1})
    for text, _v in ZOO[:40]:
        try:
            a0 = parse_impl_ast(text)
        except Exception:
            continue
        for G in (SubA, SubB):
            try:
                G().visit(a0)
                for e in a0.ext:
                    G().visit(e)
                    for _cn, ch in e.children():
                        G().visit(ch)
            except Exception:
                pass
    import props.C06 as C06z
    import semgen as _semgen
    for text, _valid in ZOO + [(t_, True) for t_ in _semgen.SEMZOO]:
        for variant in [text] + [" ".join(C06z.mutate(text.split(" "), ctx.rng)) for _ in range(6)]:
            ctx.evaluations += 1
            ctx.count("suite:zoo")
            bad = roundtrip(variant)
            if bad:
                su.violation(variant, bad)
            try:
                gen_corr(su, ctx, parse_impl_ast(variant), variant, gen_bad)
            except Exception:
                pass
    n = 800 if ctx.tier == "quick" else 10000
    for g, toks, exp in gen_cases(ctx, n, size=(1, 4)):
        text, pos = cgen.layout(toks, ctx.rng, "single")
        ctx.evaluations += 1
        ctx.count("suite:generated")
        if "(" in text and ("*" in text or "[" in text):
            ctx.nontriv(text)
        bad = roundtrip(text)
        if bad:
            su.violation(text, bad)
        elif len(ctx.samples) < 3:
            ctx.sample({"text": text[:300]})
        try:
            gen_corr(su, ctx, parse_impl_ast(text), text, gen_bad)
        except Exception:
            pass
        # accepted mutants
        import props.C06 as C06
        sp = [t[0] + ("\n" if t[2] == "pragma" else "") for t in toks]
        for _ in range(2):
            m = " ".join(C06.mutate(sp, ctx.rng))
            ctx.evaluations += 1
            ctx.count("suite:mutants")
            bad = roundtrip(m)
            if bad:
                su.violation(m, bad)
    for name, text in corpus.corpus_texts() + (corpus.big_corpus_texts() if ctx.tier == "thorough" else []):
        ctx.evaluations += 1
        ctx.count("suite:corpus")
        ctx.nontriv(name)
        bad = roundtrip(text, name)
        if bad:
            su.violation(text if len(text) < 5000 else name, f"{name}: {bad}", filename=name)
        if len(text) < 200000:
            try:
                gen_corr(su, ctx, parse_impl_ast(text, name), name, gen_bad)
            except Exception:
                pass
    if gen_bad:
        t, io, mo, rp = min(gen_bad, key=lambda d: len(d[0]))
        broken.append({"kind": "correspondence", "name": f"Generator.v vs CGenerator(reduce_parentheses={bool(rp)})", "input": t,
                       "implementation": io[:2000], "model": mo[:2000], "count": len(gen_bad)})
    su.finish()
