"""C17 - the AST (minus coordinates) depends only on the token sequence."""
from lib import *
from progsuite import *

PROP_FILES = ["props/C17.v"]
TRANSLATORS = ["tr_lexer.py", "tr_parser_tables.py", "tr_ast.py"]
TRUSTED = ["Paramcoq generates the parametricity proof term; the kernel checks it (the plugin is not trusted)"]
ASSUMPTIONS = ["the lexer delivers the same token kinds and spellings for two layouts of the same token sequence (C09 round-trip oracle and correspondence)"]


def run(ctx, b, broken):
    from pycparser import c_generator
    su = Suite(ctx, b, broken, "C17")
    ctx.notes["rule"] = "generated programs x layouts (single line, one token per line, random indentation with linemarkers between arbitrary tokens) and expression statements x random redundant parentheses; ASTs compared with coordinates erased, generated text compared; non-trivial = >= 2 variants that differ in line structure; distinct by text"
    n = 400 if ctx.tier == "quick" else 5000
    gen = c_generator.CGenerator()
    # directed programs: tags and typedef names shadowed in inner scopes, unnamed bit-fields of typedef type, labels, ?: next to
    # names - constructs whose treatment could depend on what touches what, or on two constructs sharing a coordinate
    DIRECTED = [
        "struct s { int x ; } a ; void f ( void ) { struct s { char c ; } b ; b . c = 1 ; }",
        "union u { int x ; } a ; void f ( void ) { union u { char c ; float d ; } b ; { union u { long l ; } c ; c . l = 1 ; } b . c = 1 ; }",
        "enum e { A , B } x ; void f ( void ) { enum e { C = 2 , D } y ; y = C ; }",
        "struct s { int x ; } ; struct t { struct s { int y ; } m ; } ; struct s v ;",
        "typedef int T ; struct q { T : 3 ; int y ; T z : 2 ; const T : 0 ; } ;",
        "typedef int T ; void g ( int c ) { L : ; c = c ? ( T ) 1 : c ; goto L ; }",
        "typedef int T ; void g ( int c ) { switch ( c ) { case ( T ) 1 : c ++ ; default : ; } }",
        "typedef int T ; void g ( void ) { int T ; T : T = 1 ; goto T ; }",
        "typedef char T ; int f ( int a , int b ) { return a ? b : sizeof ( T ) ; }",
        "typedef int T ; T a , * b , c [ 2 ] ; T f ( T x , T * y ) ; struct w { T m ; T * n ; } ;",
        "int a ; int a ; void f ( void ) ; void f ( void ) ; struct s ; struct s ; struct s { int k ; } ; struct s z ;",
    ]
    cases = [(None, [(w, None, "lit" if w[0] in "\"'" else ("num" if w[0].isdigit() else ("id" if (w[0].isalpha() or w[0] == "_") else "punct"))) for w in d.split()], None) for d in DIRECTED]
    for g, toks, exp in cases + list(gen_cases(ctx, n)):
        ref = None
        for mode in ("single", "lines", "random", "random", "glued", "samecoord"):
            text, pos = cgen.layout(toks, ctx.rng, mode)
            ctx.evaluations += 1
            ctx.count("layout:" + mode)
            io = impl_parse(text, wc=False)
            su.corr(text, impl_parse(text), tag="layout variants")
            key = io.rsplit(US, 1)[0] if io.startswith("OK") else io
            try:
                out = gen.visit(parse_impl_ast(text)) if io.startswith("OK") else None
            except Exception as ex:
                out = "GENERATOR " + type(ex).__name__
            if ref is None:
                ref = (key, out, text)
            else:
                ctx.nontriv(text)
                if key != ref[0]:
                    su.violation(text, "re-laying out the program changed the AST beyond coordinates", {"other_layout": ref[2]})
                elif out != ref[1]:
                    su.violation(text, "re-laying out the program changed the regenerated C text", {"other_layout": ref[2]})
    # very long runs of directives and blank lines between two tokens are layout too
    for nrun in (600, 3000):
        for filler in ('# {i} "f.h"\n', "#line {i}\n", "\n", "#pragma p{i}\n"):
            run_ = "".join(filler.format(i=i + 1) for i in range(nrun))
            text = "int a;\n" + run_ + "int b = a\n" + (run_ if "pragma" not in filler else "") + "+ 1;\n"
            short = "int a;\n" + filler.format(i=1) + "int b = a\n" + (filler.format(i=1) if "pragma" not in filler else "") + "+ 1;\n"
            ctx.evaluations += 1
            ctx.count("layout:long-directive-run")
            io_l, io_s = impl_parse(text, wc=False), impl_parse(short, wc=False)
            kl = io_l.rsplit(US, 1)[0] if io_l.startswith("OK") else io_l
            ks = io_s.rsplit(US, 1)[0] if io_s.startswith("OK") else io_s
            if kl != ks and "pragma" not in filler:
                su.violation(text[:300] + " ...", f"a run of {nrun} lines `{filler.strip()}` between two tokens changed the outcome: {io_l[:100]!r}", {"other_layout": short})
            elif "pragma" in filler and not io_l.startswith("OK"):
                su.violation(text[:300] + " ...", f"a run of {nrun} pragma lines is not accepted: {io_l[:100]!r}")
    # redundant parentheses around operands other than comma expressions
    g = cgen.Gen(ctx.rng)
    # every position of the grammar that takes an expression: (tokens before, precedence level the position requires, tokens after)
    FN = ["void", "f", "(", "void", ")", "{"]
    CONTEXTS = [(FN, 1, [";", "}"]), (FN + ["return"], 1, [";", "}"]), (FN + ["if", "("], 1, [")", ";", "}"]), (FN + ["while", "("], 1, [")", ";", "}"]),
                (FN + ["for", "(", ";"], 1, [";", ")", ";", "}"]), (FN + ["switch", "(", "x", ")", "{", "case"], 3, [":", ";", "}", "}"]),
                (FN + ["g", "("], 2, [",", "y", ")", ";", "}"]), (FN + ["a", "["], 1, ["]", ";", "}"]), (FN + ["x", "=", "sizeof"], 15, [";", "}"]),
                (["enum", "E", "{", "K", "="], 3, ["}", ";"]), (["enum", "E", "{", "A", ",", "K", "="], 3, [",", "B", "}", ";"]),
                (["int", "a", "["], 2, ["]", ";"]), (["struct", "S", "{", "int", "f", ":"], 3, [";", "}", ";"]), (["int", "x", "="], 2, [";"]),
                (["int", "a", "[", "]", "=", "{", "["], 3, ["]", "=", "1", "}", ";"]), (["int", "a", "[", "]", "=", "{"], 2, [",", "2", "}", ";"]),
                (["_Static_assert", "("], 3, [",", "\"m\"", ")", ";"]), (["_Alignas", "("], 3, [")", "int", "x", ";"]),
                (["struct", "S", "s", "=", "{", ".", "m", "="], 2, ["}", ";"]), (["int", "x", "=", "(", "int", ")"], 14, [";"])]
    # systematically: every tiny operand in every position, bare and wrapped in one and two pairs of parentheses
    TINY = ["1", "- 1", "+ 1", "~ 0", "! 0", "- x", "- - 1", "- 1u", "- 'a'", "- 1.5", "* p", "& x", "x", "x + 1", "1 - 2", "- 1 + 2", "x [ 0 ]", "f ( 1 )",
            "sizeof x", "sizeof ( int )", "( int ) 1", "( int ) - 1", "x ++", "-- x", "1 ? 2 : 3", "\"s\"", "- 0x10", "- 010", "K", "- K"]
    for pre, prec, post in CONTEXTS:
        for e_txt in TINY:
            keys = []
            # in an operand position of sizeof / a cast the bare form may legitimately group differently (sizeof x + 1): compare the wrapped forms only
            for wrap in ((0, 1, 2) if prec < 14 else (1, 2)):
                text = " ".join(pre + ["("] * wrap + [e_txt] + [")"] * wrap + post)
                ctx.evaluations += 1
                ctx.count("parens:tiny")
                io = impl_parse(text, wc=False)
                su.corr(text, impl_parse(text), tag="redundant parentheses (tiny operands)")
                keys.append((io.rsplit(US, 1)[0] if io.startswith("OK") else io, text))
            if keys[0][0].startswith("OK") and len({k for k, _ in keys}) != 1:
                su.violation(keys[1][1], "redundant parentheses changed the AST", {"first": keys[0][1], "last": keys[-1][1]})
    for _ in range(900 if ctx.tier == "quick" else 12000):
        e = g.expr(ctx.rng.choice([0, 1, 1, 2, 2, 3, 4]))
        pre, prec, post = ctx.rng.choice(CONTEXTS)
        keys = []
        for mode in ("min", "rand", "full"):
            tk = cgen.Toks()
            tk.adds(*pre)
            try:
                g.emit_expr(e, tk, prec, mode)
            except RecursionError:
                break
            tk.adds(*post)
            text, _ = cgen.layout(tk.t, ctx.rng, "single")
            ctx.evaluations += 1
            ctx.count("parens:" + mode)
            io = impl_parse(text, wc=False)
            su.corr(text, impl_parse(text), tag="redundant parentheses")
            keys.append((io.rsplit(US, 1)[0] if io.startswith("OK") else io, text))
        if len(keys) < 3:
            continue
        ctx.nontriv(keys[0][1])
        if len({k for k, _ in keys}) != 1:
            su.violation(keys[1][1], "redundant parentheses changed the AST", {"minimal": keys[0][1], "full": keys[2][1]})
    ctx.sample({"text": "int\nx\n=\n1\n;", "variant_of": "int x = 1 ;"})
    su.finish()
