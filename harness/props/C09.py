"""C09 - tokenisation is lossless, longest-match and position-exact."""
from lib import *
from lexcorr import *

PROP_FILES = ["props/C09.v"]
TRANSLATORS = ["tr_lexer.py"]
TRUSTED = [
    "Python `re` implements backtracking-priority semantics for the opcode subset in use (checked every run: model matcher vs CLexer on the same regenerated tables)",
    "spec token vocabulary and adjacency rule in harness/lexcorr.py are written from C99 6.4",
]
ASSUMPTIONS = ["the lexer's callbacks do not influence its own state (model lexes eagerly; classification/brace/error callbacks are applied at delivery)"]


def lex_suites(ctx, tier):
    """Yield (suite, text, expected-or-None)."""
    L = 3 if tier == "quick" else 4
    for s in all_strings(ALPHA20, L):
        yield "exhaustive", s, None
    n_rand = 20000 if tier == "quick" else 200000
    for _ in range(n_rand):
        yield "random-class", random_string(ctx.rng), None
    n_seq = 6000 if tier == "quick" else 60000
    for _ in range(n_seq):
        toks = [gen_token(ctx.rng) for _ in range(ctx.rng.randint(1, 14))]
        text, exp, n_adj, n_dir = render_tokens(ctx.rng, toks)
        yield "tokens", text, (exp, n_adj, n_dir, toks)


def run(ctx, b, broken):
    model = Model() if b.driver_ok else None
    cases = list(lex_suites(ctx, ctx.tier))
    outs = model.batch([Model.enc(1, "f.c", t) for _, t, _ in cases]) if model else [None] * len(cases)
    disagreements = []
    for (suite, text, exp), mo in zip(cases, outs):
        ctx.evaluations += 1
        ctx.count("suite:" + suite)
        io = impl_lex(text, "f.c")
        bad = None
        # direct oracle on the implementation
        if io == "TIMEOUT" or io.startswith("EXC ") or "NONTERMINATION" in io:
            bad = f"lexer does not finish cleanly on arbitrary text: {io[:80]}"
        elif exp is not None:
            bad = oracle_roundtrip(text, exp[0])
            kinds = {t[1] for t in exp[3]}
            if len(exp[3]) >= 3 and len(kinds) >= 2 and (exp[1] or exp[2]):
                ctx.nontriv(text)
            if len(ctx.samples) < 6 and exp[2]:
                ctx.sample({"suite": suite, "text": text, "expected_first_tokens": [list(e[:4]) for e in exp[0][:4]]})
        else:
            items = parse_items(io)
            ctx.count("outcome:" + ("error" if any(i[0] == "E" for i in items) else "tokens-only"))
            if sum(1 for i in items if i[0] in "TE") >= 2:
                ctx.nontriv(text)
        if bad:
            ctx.violation({"property": "C09", "suite": suite, "input": text, "filename": "f.c", "observed": io, "problem": bad,
                           "replay": "./check C09 --replay <this file>"})
            if len(ctx.violations) > 5:
                break
        if mo is not None:
            ctx.traces += 1
            if mo != io:
                disagreements.append((suite, text, io, mo))
    # a lexer that was used before (previous input abandoned after 0..3 tokens, e.g. between the two tokens of a #pragma line)
    # must tokenise the next input exactly like a new one
    from pycparser.c_lexer import CLexer
    poison = ["#pragma a b\nint x", "#pragma once", "# 5 \"q.c\"\nfoo bar", "a\n\nb 'x", "int x;\n#pragma pack(1)\nint y;", "#line 9\n#pragma omp for\nz"]
    tok_cases = [c for c in cases if c[0] == "tokens"][: (300 if ctx.tier == "quick" else 3000)]
    for suite, text, exp in tok_cases:
        items = []
        lx = CLexer(error_func=lambda msg, line, col: items.append(("E", msg, str(line), str(col), lx.filename)),
                    on_lbrace_func=lambda: None, on_rbrace_func=lambda: None, type_lookup_func=lambda name: False)
        lx.input(ctx.rng.choice(poison), "old.c")
        try:
            for _ in range(ctx.rng.randint(0, 3)):
                if lx.token() is None:
                    break
        except Exception:
            pass
        del items[:]
        lx.input(text, "f.c")
        got = []
        try:
            for _ in range(4 * len(text) + 16):
                t = lx.token()
                if t is None:
                    break
                items.append(("T", t.type, t.value, str(t.lineno), str(t.column), lx.filename))
        except Exception as e:
            items.append(("X", type(e).__name__))
        items.append(("F", lx.filename))
        reused = canon_items(items)
        ctx.evaluations += 1
        ctx.count("suite:reused-lexer")
        fresh = impl_lex(text, "f.c")
        if reused != fresh:
            ctx.violation({"property": "C09", "suite": "reused-lexer", "input": text, "filename": "f.c", "observed": reused[:400], "expected": fresh[:400],
                           "problem": "a CLexer that was used before tokenises the next input differently from a new one"})
            break
    if model:
        model.close()
    ctx.sample({"suite": "exhaustive", "text": "a0'\\", "note": "all strings over the 20-character alphabet up to the tier's length"})
    ctx.notes["rule"] = ("token-sequence cases: >=3 tokens of >=2 classes with at least one adjacency or directive; "
                         "string cases: >=2 items (tokens or errors) produced; distinct by text")
    ctx.notes["exhaustive"] = False
    if disagreements:
        suite, text, io, mo = min(disagreements, key=lambda d: len(d[1]))
        broken.append({"kind": "correspondence", "name": "lexer model vs CLexer (" + suite + ")",
                       "input": text, "implementation": io, "model": mo, "count": len(disagreements)})


def replay(ctx, rp, b):
    text = rp.get("input") or rp.get("broken", [{}])[0].get("input", "")
    io = impl_lex(text, rp.get("filename", "f.c"))
    log("input:", repr(text))
    log("implementation:", repr(io))
    if b.driver_ok:
        m = Model()
        log("model:         ", repr(m.call(1, rp.get("filename", "f.c"), text)))
        m.close()
    return 0
