"""C14 - node classes and tree traversal conform to the declarative AST specification."""
from lib import *
import io
from nodecorr import *

PROP_FILES = ["props/C14.v"]
TRANSLATORS = ["tr_ast.py"]
TRUSTED = ["tr_ast.py reads c_ast.py statically with Python's ast module and aborts on any class body outside the generated shape",
           "Node.show / NodeVisitor are hand-modelled (coq/model/NodeModel.v) and tied by correspondence only"]
ASSUMPTIONS = ["attribute values print without a newline (show() line count)"]


def oracle_class(c_ast, cname, ents):
    """Direct checks of the property on one real class."""
    cls = getattr(c_ast, cname, None)
    if cls is None:
        return f"class {cname} missing"
    sent = [object() for _ in ents]
    co = object()
    try:
        n = cls(*sent, coord=co)
    except Exception as e:
        return f"{cname}: constructor does not accept (fields..., coord=): {e!r}"
    for (en, _), s in zip(ents, sent):
        if getattr(n, en, None) is not s:
            return f"{cname}: constructor argument order differs from the specification at field {en}"
    if n.coord is not co:
        return f"{cname}: coord not stored"
    try:
        n2 = cls(*sent)
        if n2.coord is not None:
            return f"{cname}: coord default is not None"
    except Exception as e:
        return f"{cname}: coord is not optional: {e!r}"
    want_attrs = tuple(en for en, k in ents if k == "attr")
    if tuple(cls.attr_names) != want_attrs:
        return f"{cname}: attr_names {cls.attr_names} != plain-value fields {want_attrs}"
    return None


def oracle_instance(c_ast, v, ents):
    """children()/iteration/visitor/show on one real instance vs the specification."""
    node = to_py(v, c_ast)
    cname = v[1]
    want = []
    for (en, k), f in zip(ents, v[2]):
        if k == "child" and f[0] != "none":
            want.append((en, getattr(node, en)))
    for (en, k), f in zip(ents, v[2]):
        if k == "seq" and f[0] == "list":
            for i, e in enumerate(getattr(node, en)):
                want.append((f"{en}[{i}]", e))
    got = list(node.children())
    if [(a, id(b)) for a, b in got] != [(a, id(b)) for a, b in want]:
        return f"{cname}: children() = {[a for a, _ in got]} but the specification gives {[a for a, _ in want]}"
    if [id(x) for x in node] != [id(b) for _, b in want]:
        return f"{cname}: iteration differs from children()"
    return None


def run(ctx, b, broken):
    from pycparser import c_ast
    cfg = parse_cfg()
    cfgd = dict(cfg)
    cidx = {name: i for i, (name, _) in enumerate(cfg)}
    model = Model() if b.driver_ok else None
    disagreements = []

    for cname, ents in cfg:
        ctx.evaluations += 1
        bad = oracle_class(c_ast, cname, ents)
        if bad:
            ctx.violation({"property": "C14", "class": cname, "problem": bad})

    def check_instance(v, nontrivial, suite):
        ctx.evaluations += 1
        ctx.count("suite:" + suite)
        ctx.count("class:" + v[1])
        key = json.dumps(v)
        if nontrivial:
            ctx.nontriv(key)
        try:
            bad = oracle_instance(c_ast, v, cfgd[v[1]])
        except Exception as e:
            bad = f"{v[1]}: exception {e!r}"
        node = to_py(v, c_ast)
        # generic traversal reaches each reachable node exactly once; show prints one line per node
        size = count_nodes(v, cfgd)
        if not bad:
            ev = impl_visit(node, {}, c_ast).split(RS)
            if len(ev) != size:
                bad = f"generic_visit visited {len(ev)} nodes, {size} reachable"
        if not bad:
            target = ctx.rng.choice(list(cfgd))
            for vmode in (0, 1, 2, 5, 6, 7):
                hset = {target, ctx.rng.choice(list(cfgd))}
                ev = [e.split(US) for e in impl_visit(node, {c: 2 for c in sorted(hset)}, c_ast, vmode).split(RS)]
                if any((c in hset) != (flag == "1") for c, flag in ev) or len(ev) != size:
                    bad = f"visit_X for X in {sorted(hset)} did not intercept exactly the nodes of those classes (visitor usage mode {vmode})"
                    break
        if not bad:
            flat = json.dumps(v)
            if "\\n" not in flat and "\\r" not in flat and "\\u2028" not in flat:
                lines = impl_show(node, False, True, False, False).count("\n")
                if lines != size:
                    bad = f"show() printed {lines} lines for {size} reachable nodes"
        if not bad:
            # the offset argument shifts every line by that many blanks and changes nothing else, whatever the other options
            fl = [bool(ctx.rng.randint(0, 1)) for _ in range(4)]
            k = ctx.rng.choice([1, 3, 8])
            b0, bk = io.StringIO(), io.StringIO()
            node.show(b0, attrnames=fl[0], showemptyattrs=fl[1], nodenames=fl[2], showcoord=fl[3])
            node.show(bk, offset=k, attrnames=fl[0], showemptyattrs=fl[1], nodenames=fl[2], showcoord=fl[3])
            want = "".join(" " * k + ln + "\n" for ln in b0.getvalue().split("\n")[:-1])
            if bk.getvalue() != want and "\\n" not in json.dumps(v):
                bad = f"show(offset={k}, attrnames={fl[0]}, showemptyattrs={fl[1]}, nodenames={fl[2]}, showcoord={fl[3]}) is not show() shifted by {k} blanks"
        if bad:
            ctx.violation({"property": "C14", "suite": suite, "value": v, "problem": bad})
            return
        if model:
            e = enc_value(v, cidx)
            flags = [ctx.rng.randint(0, 1) for _ in range(4)]
            hs = {c: ctx.rng.choice([1, 2]) for c in ctx.rng.sample(list(cfgd), 3)}
            hreq = [len(hs)] + sum(([cidx[c], k] for c, k in hs.items()), [])
            pairs = [
                ("children", " ".join(map(str, [10] + e)), impl_children(node)),
                ("iter", " ".join(map(str, [11] + e)), impl_iter(node)),
                ("show", " ".join(map(str, [12] + flags + e)), impl_show(node, *map(bool, flags))),
                ("visit", " ".join(map(str, [14] + hreq + e)), impl_visit(node, hs, c_ast)),
                ("visit (derived visitor class after its base class was used)", " ".join(map(str, [14] + hreq + e)), impl_visit(node, hs, c_ast, 1)),
                ("visit (same instance, second traversal)", " ".join(map(str, [14] + hreq + e)), impl_visit(node, hs, c_ast, 2)),
                ("visit (visitor class with methods named visit_Node / visit_object)", " ".join(map(str, [14] + hreq + e)), impl_visit(node, hs, c_ast, 4)),
                ("visit (visit_X methods remove the visited node from its list)", " ".join(map(str, [14] + hreq + e)), impl_visit(to_py(v, c_ast), hs, c_ast, 3)),
            ]
            for what, req, io_ in pairs:
                mo = model.raw(req)
                ctx.traces += 1
                if mo != io_:
                    disagreements.append((what, v, io_, mo))
        if len(ctx.samples) < 5 and nontrivial:
            ctx.sample({"suite": suite, "value": v})

    for v, nt in class_sweep(cfg, ctx.rng):
        check_instance(v, nt, "class-sweep")
    n_rand = 600 if ctx.tier == "quick" else 6000
    for _ in range(n_rand):
        v = random_tree(cfg, ctx.rng, ctx.rng.randint(1, 3))
        check_instance(v, True, "random-tree")
    # deep trees from the parser (a left-leaning sum, a member chain, nested blocks): generic traversal still reaches every node
    # once and show() still prints one line per node - implementation only (the depth is beyond the model driver's fuel)
    import io as _io
    from pycparser import c_parser
    for nm, text in (("sum", "int x = " + " + ".join(f"a{i}" for i in range(260)) + ";"),
                     ("member-chain", "void f(void){ x = p" + "->n" * 240 + "; }"),
                     ("nested-blocks", "void f(void){ " + "{ x++; " * 120 + "}" * 120 + " }"),
                     ("else-if", "void f(int x){ " + " ".join(f"if (x == {i}) a = {i}; else" for i in range(230)) + " a = 0; }")):
        ctx.evaluations += 1
        ctx.count("suite:deep-parser-trees")
        try:
            tree = c_parser.CParser().parse(text, "deep.c")
        except RecursionError:
            continue
        count = [0]

        def walk(n_):
            count[0] += 1
            for _nm, ch in n_.children():
                walk(ch)
        walk(tree)
        seen = []

        class V(c_ast.NodeVisitor):
            def generic_visit(self, n_):
                seen.append(1)
                c_ast.NodeVisitor.generic_visit(self, n_)
        V().visit(tree)
        buf = _io.StringIO()
        tree.show(buf=buf)
        lines = buf.getvalue().count("\n")
        if len(seen) != count[0]:
            ctx.violation({"property": "C14", "suite": "deep-parser-trees", "input": text[:200] + " ...", "problem": f"generic traversal of a deep tree ({nm}) visited {len(seen)} nodes, {count[0]} reachable"})
        elif lines != count[0]:
            ctx.violation({"property": "C14", "suite": "deep-parser-trees", "input": text[:200] + " ...", "problem": f"show() printed {lines} lines for {count[0]} reachable nodes of a deep tree ({nm})"})
    # ASTs the parser really produces (hand-written programs): the same class occurs with and without children (`return;` / `return x;`,
    # `struct s;` / `struct s {...}`, `{}` / `{ x; }`), nodes are shared by several parents (`struct pt {...} a, *b;`), and one visitor
    # object is used again after a traversal that ended in an exception.  The reference is a plain recursive walk over children().
    import io as _io2
    from progsuite import ZOO
    import semgen as _sg
    PT = ["void f(void){ return; } int g(int x){ if (x) return x; return 1; }",
          "struct node; struct node { int a; struct node *next; }; enum { NONE, READ = 1 << 0, WRITE = 1 << 1 }; enum tag; enum tag { T0 };",
          "struct pt { int x; } a, *b; enum e { A, B = 2 } p, q; struct pt p2, q2; union u { int i; float f; } u1, u2[2];",
          "void f(void){ { } { x; } ; break; for (;;) { } for (i = 0; i < 3; i++) x++; } void g(void) { } void h(int a) { a++; }",
          "int f(); int g(void); int h(int, char *); int a[]; int b[3]; int c = 1; int d; typedef int T; T e(T);",
          "void f(int x){ switch (x) { default: ; case 1: x++; } goto l; l: ; x = sizeof(int); y = sizeof x; }"]
    for text in PT + [t for t, _v in ZOO] + _sg.SEMZOO:
        try:
            tree = c_parser.CParser().parse(text, "pt.c")
        except Exception:
            continue
        ctx.evaluations += 1
        ctx.count("suite:parser-trees")
        ctx.nontriv(("pt", text))
        paths = []

        def walk2(n_):
            paths.append(type(n_).__name__)
            for _nm, ch in n_.children():
                walk2(ch)
        try:
            walk2(tree)
        except RecursionError:
            continue
        present = sorted(set(paths))
        bad = None
        # 1. a visitor without handlers, used for two traversals
        seen = []

        class V1(c_ast.NodeVisitor):
            def generic_visit(self, n_):
                seen.append(type(n_).__name__)
                c_ast.NodeVisitor.generic_visit(self, n_)
        v1 = V1()
        v1.visit(tree)
        if seen != paths:
            bad = f"generic traversal visited {len(seen)} nodes, {len(paths)} reachable (in this order: a recursive walk over children())"
        if not bad:
            del seen[:]
            v1.visit(tree)
            if seen != paths:
                bad = f"the SECOND traversal by the same visitor object visited {len(seen)} nodes, {len(paths)} reachable"
        # 2. handlers for two classes that occur: they intercept exactly the nodes of these classes, everything is still reached
        if not bad:
            hs = set(ctx.rng.sample(present, min(2, len(present))))
            log2 = []

            def mk(cn):
                def h(self, n_):
                    log2.append(("H", type(n_).__name__))
                    c_ast.NodeVisitor.generic_visit(self, n_)
                return h
            V2 = type("V2", (c_ast.NodeVisitor,), dict({"visit_" + c: mk(c) for c in hs},
                      generic_visit=lambda self, n_: (log2.append(("G", type(n_).__name__)), c_ast.NodeVisitor.generic_visit(self, n_))[1]))
            V2().visit(tree)
            got = [c for k_, c in log2 if not (k_ == "G" and c in hs)]     # a handler calls generic_visit itself: drop that echo
            if got != paths or any((c in hs) != (k_ == "H") for k_, c in log2 if not (k_ == "G" and c in hs)):
                bad = f"visit_X for X in {sorted(hs)}: handlers / generic traversal did not see exactly the reachable nodes in order ({len(got)} of {len(paths)})"
        # 2b. a visitor that does NOT override generic_visit (the library's own traversal does all the walking): handlers for two classes
        #     record and do not descend; reference = recursive walk over children() that stops at these classes
        if not bad:
            hs2 = set(ctx.rng.sample(present, min(2, len(present)))) | ({"ID", "Constant"} & set(present))
            hs2.discard("FileAST")
            log3 = []
            V2b = type("V2b", (c_ast.NodeVisitor,), {"visit_" + c: (lambda self, n_: log3.append(type(n_).__name__)) for c in hs2})
            V2b().visit(tree)
            ref3 = []

            def walk3(n_):
                if type(n_).__name__ in hs2:
                    ref3.append(type(n_).__name__)
                    return
                for _nm, ch in n_.children():
                    walk3(ch)
            walk3(tree)
            if log3 != ref3:
                bad = f"a visitor with handlers for {sorted(hs2)} only (generic_visit not overridden) saw {len(log3)} of the {len(ref3)} nodes of these classes that the library's traversal must reach"
        # 3. a visitor whose handler raises in the middle of the first traversal is used again
        if not bad and len(present) > 1:
            target = ctx.rng.choice(present[1:]) if present[0] == "FileAST" else ctx.rng.choice(present)
            state = {"raise": True}
            seen3 = []

            class V3(c_ast.NodeVisitor):
                def generic_visit(self, n_):
                    seen3.append(type(n_).__name__)
                    if state["raise"] and type(n_).__name__ == target:
                        raise KeyError("stop")
                    c_ast.NodeVisitor.generic_visit(self, n_)
            v3 = V3()
            try:
                v3.visit(tree)
            except KeyError:
                pass
            state["raise"] = False
            del seen3[:]
            v3.visit(tree)
            if seen3 != paths:
                bad = f"a visitor object whose first traversal ended in an exception (raised at a {target} node) visited {len(seen3)} of {len(paths)} nodes on its next traversal"
        # 4. show(): one line per reachable node (a node shared by two parents is reachable twice)
        if not bad and "\\n" not in text and '"' not in text:
            buf = _io2.StringIO()
            tree.show(buf=buf)
            nl_ = buf.getvalue().count("\n")
            if nl_ > len(paths) and ("_Alignas" in text or "_Pragma" in text):
                # the two listed findings: Alignas nodes / the Constant of _Pragma sit in plain attributes; show() prints them inside the line of
                # their Decl / Pragma.  Only MORE lines than nodes, and only for programs with these constructs.
                for f_ in ctx.findings:
                    if f_["id"] in ("C14-alignas-in-plain-attribute", "C14-pragma-operator-show") and (("_Alignas" in text) if "alignas" in f_["id"] else ("_Pragma" in text)):
                        ctx.known(f_["id"], f_["what"])
            elif nl_ != len(paths):
                bad = f"show() printed {nl_} lines for {len(paths)} reachable nodes"
        if bad:
            ctx.violation({"property": "C14", "suite": "parser-trees", "input": text, "problem": bad})
    if model:
        model.close()
    ctx.notes["rule"] = "class sweep: all 49 classes x every subset of optional children absent x sequence shapes {None, [], 1, 3}; non-trivial = at least one absent child or a sequence of length != 1; random trees of depth <= 3; distinct by value"
    ctx.notes["exhaustive"] = True
    if disagreements:
        what, v, io_, mo = min(disagreements, key=lambda d: len(json.dumps(d[1])))
        broken.append({"kind": "correspondence", "name": f"NodeModel vs c_ast ({what})", "input": v,
                       "implementation": io_, "model": mo, "count": len(disagreements)})


def replay(ctx, rp, b):
    log(json.dumps(rp, indent=1)[:3000])
    return 0
