"""C10 - literals are accepted iff well-formed and classified by their spelling."""
import itertools
from lib import *
from lexcorr import *
from parsecorr import impl_parse

PROP_FILES = ["props/C10.v"]
TRANSLATORS = ["tr_lexer.py", "tr_parser_tables.py", "tr_litspec.py"]
TRUSTED = ["the literal grammar below is written from C99 6.4.4 / 6.4.5 plus the documented extensions (binary integers, u8/u/U prefixes, lenient escape letters and decimal escapes, multi-character constants of 2-4 characters)"]
ASSUMPTIONS = []

SUF = r"(?:[uU](?:ll|LL|l|L)?|(?:ll|LL|l|L)[uU]?)?"
HEX = "[0-9a-fA-F]"
ESC = r"\\(?:[a-wyzA-Z._~!=&^\-\\?'\"]|x(?!" + HEX + r")|[0-9]+|x" + HEX + "+)"
SPEC = [
    ("INT_CONST_HEX", re.compile(r"0[xX]" + HEX + "+" + SUF)),
    ("INT_CONST_BIN", re.compile(r"0[bB][01]+" + SUF)),
    ("INT_CONST_OCT", re.compile(r"0[0-7]*" + SUF)),
    ("INT_CONST_DEC", re.compile(r"[1-9][0-9]*" + SUF)),
    ("FLOAT_CONST", re.compile(r"(?:(?:[0-9]*\.[0-9]+|[0-9]+\.)(?:[eE][+-]?[0-9]+)?|[0-9]+[eE][+-]?[0-9]+)[fFlL]?")),
    ("HEX_FLOAT_CONST", re.compile(r"0[xX](?:" + HEX + r"*\." + HEX + "+|" + HEX + r"+\.?)[pP][+-]?[0-9]+[fFlL]?")),
]
CCHAR = r"(?:[^'\\\n]|" + ESC + ")"
SCHAR = r"(?:[^\"\\\n]|\\[0-9a-zA-Z._~!=&^\-\\?'\"])"
for pre, cls in [("", "CHAR_CONST"), ("L", "WCHAR_CONST"), ("u8", "U8CHAR_CONST"), ("u", "U16CHAR_CONST"), ("U", "U32CHAR_CONST")]:
    SPEC.append((cls, re.compile(pre + "'" + CCHAR + "'")))
SPEC.append(("INT_CONST_CHAR", re.compile("'" + CCHAR + "{2,4}'")))
for pre, cls in [("", "STRING_LITERAL"), ("L", "WSTRING_LITERAL"), ("u8", "U8STRING_LITERAL"), ("u", "U16STRING_LITERAL"), ("U", "U32STRING_LITERAL")]:
    SPEC.append((cls, re.compile(pre + '"' + SCHAR + '*"')))


def spec_class(s):
    for cls, rx in SPEC:
        if rx.fullmatch(s):
            return cls
    return None


LIT_CLASSES = {c for c, _ in SPEC}
ALPHA = list("0189afxXbuUlLeEpP.+-'\"\\") + ["8", "\n"]


def spec_type(cls, s):
    if cls.startswith("INT_CONST") and cls != "INT_CONST_CHAR":
        suf = re.search(r"[uUlL]*$", s).group(0)
        return "unsigned " * sum(c in "uU" for c in suf) + "long " * sum(c in "lL" for c in suf) + "int"
    if cls == "INT_CONST_CHAR":
        return "int"
    if cls in ("FLOAT_CONST", "HEX_FLOAT_CONST"):
        return "float" if s[-1] in "fF" else "long double" if s[-1] in "lL" else "double"
    if "CHAR" in cls:
        return "char"
    return "string"


def run(ctx, b, broken):
    model = Model() if b.driver_ok else None
    L = 4 if ctx.tier == "quick" else 5
    ctx.notes["rule"] = f"all strings up to length {L} over a {len(set(ALPHA))}-character alphabet of digits, hex letters, suffix letters, '.', exponent/sign characters, quotes, backslash and prefix letters; random longer literals from the C99 6.4.4/6.4.5 grammar with random suffixes and single-edit corruptions; non-trivial = a string on which some rule consumed >= 2 characters or an error rule fired; distinct by text"
    cases = ["".join(t) for n in range(1, L + 1) for t in itertools.product(sorted(set(ALPHA)), repeat=n)]
    # characters that Python's \d, \w, \s accept but C does not take as digits, letters or blanks
    ODD = ["\u0663", "\uff13", "\u00b2", "\u00e9", "\u00a0", "\u2003", "\u0967"]
    cases += ["1\u0663", "\u0663", "\u0663.\u0665", "1e\u0663", "0x1p\uff13", "1.\u0663", "0\u0663", "'\u0663'", "\"\u0663\"", "1\u0663u", "0x\uff11", "0b\uff11", "1.5e+\u0967",
              "\uff11.5", "1\u00a0", "1\u00b2", "0\uff17", "1.\uff10f", "'\\\u0663'", "L'\u0663'", "u8\"\u0663\""]
    # every printable ASCII character (and a few others) after a backslash, in every kind of character constant and string literal
    for ch in [chr(c) for c in range(32, 127)] + ["\t", "\u00e9", "\u0663"]:
        cases += ["'\\" + ch + "'", '"\\' + ch + '"', "L'\\" + ch + "'", 'u8"a\\' + ch + 'b"', "'a\\" + ch + "'"]
    # integer constants of 20-26 characters in every base, with and without suffixes
    for body in ["0" + "7" * 21, "01" + "7" * 22, "0" * 20 + "7", "1" + "8" * 20, "0x" + "f" * 20, "0X" + "0" * 19 + "1F", "0b" + "1" * 22, "9" * 24, "2147483648", "4294967296", "9223372036854775808"]:
        cases += [body, body + "u", body + "ULL", body + "l"]
    for _ in range(5000 if ctx.tier == "quick" else 100000):
        s, _c = ctx.rng.choice([gen_int, gen_float, gen_charconst, gen_string])(ctx.rng)
        if ctx.rng.random() < 0.5 and s:
            i = ctx.rng.randrange(len(s))
            ch = ctx.rng.choice(ALPHA) if ctx.rng.random() < 0.93 else ctx.rng.choice(ODD)
            s = ctx.rng.choice([s[:i] + s[i + 1:], s[:i] + ch + s[i:], s[:i] + ch + s[i + 1:]])
        cases.append(s)
    outs = model.batch([Model.enc(1, "f.c", s) for s in cases]) if model else [None] * len(cases)
    mouts = model.batch([Model.enc(2, s) for s in cases]) if model else [None] * len(cases)
    from pycparser import c_lexer
    disagreements = []
    nviol = 0
    for s, mo, mm in zip(cases, outs, mouts):
        ctx.evaluations += 1
        items = impl_lex_items(s, "f.c")
        io = canon_items(items)
        toks = [i for i in items if i[0] == "T"]
        errs = [i for i in items if i[0] == "E"]
        if any(len(t[2]) >= 2 for t in toks) or errs:
            ctx.nontriv(s)
        got = toks[0][1] if len(toks) == 1 and not errs and toks[0][2] == s and toks[0][1] in LIT_CLASSES else None
        want = spec_class(s)
        ctx.count("class:" + str(want))
        bad = None
        if got != want:
            bad = f"the lexer classifies {s!r} as {got}; by its spelling it is {want}"
        elif want is not None:
            # Constant node: spelling unchanged, type implied by suffix / prefix
            io_p = impl_parse(f"int x = {s};", wc=False)
            m = re.search(r"\(Constant ('[^']*') (.*?)\)\) None\)\]\)", io_p)
            ty = spec_type(want, s)
            exp_frag = f"(Constant {ty!r} {s!r})"
            if exp_frag not in io_p:
                bad = f"Constant for {s!r} is not {exp_frag}: {io_p[:160]!r}"
        else:
            # 0[0-7]*[89] not continued into a floating constant (08.5, 08e1 are decimal floats)
            if re.match(r"0[0-7]*[89]", s) and not re.match(r"[0-9]+(\.|[eE][+-]?[0-9])", s):
                if not errs or errs[0][1] != "Invalid octal constant":
                    bad = f"bad octal constant {s!r} is not reported through the error callback"
            if s.startswith("''") and not errs:
                bad = f"empty character constant in {s!r} is not reported"
        if bad and got is not None and want is None and any(any(ord(ch) > 127 for ch in m_.group(0)) for m_ in re.finditer(r"\\\d+", s)):
            # the listed finding C10-unicode-digit-escape (a decimal escape `\\d+` that contains a non-ASCII digit), in another literal
            kf = [f for f in ctx.findings if f["id"] == "C10-unicode-digit-escape"]
            if kf:
                ctx.known(kf[0]["id"], kf[0]["what"])
                bad = None
        if bad and nviol < 8:
            nviol += 1
            ctx.violation({"property": "C10", "input": s, "problem": bad, "observed": io[:300]})
        if mo is not None:
            ctx.traces += 1
            if mo != io:
                disagreements.append(("lexer", s, io, mo))
            # master regex alone: Python's re vs the model matcher on the regenerated rules
            m = c_lexer._regex_master.match(s)
            pm = "-" if m is None else m.lastgroup + US + str(len(m.group(0)))
            if mm != pm:
                disagreements.append(("master-regex", s, pm, mm))
    # adjacent string literals: ONE Constant whose spelling is a well-formed literal again - the common prefix, one pair of
    # quotes, the contents of the pieces in order (C99 6.4.5p4; pieces of one prefix class)
    for pre in ["", "L", "u8", "u", "U"]:
        for pieces in [["ab", "cd"], ["a", "b", "c"], ["", "x"], ["x", ""], ["a\\\"b", "c"], ["\\n", "\\t", "z"], ["1", "2", "3", "4"]]:
            for sep in [" ", "", "\n", " \t "]:
                ctx.evaluations += 1
                text = sep.join(f'{pre}"{c}"' for c in pieces)
                ctx.count("adjacent-strings")
                ctx.nontriv(("adjacent", text))
                io_p = impl_parse(f"char *x = {text};", wc=False)
                want_v = pre + '"' + "".join(pieces) + '"'
                exp_frag = f"(Constant 'string' {want_v!r})"
                if exp_frag not in io_p and nviol < 8:
                    nviol += 1
                    ctx.violation({"property": "C10", "input": f"char *x = {text};", "problem": f"adjacent literals {text!r} do not become {exp_frag}: {io_p[:200]!r}"})
    if model:
        model.close()
    ctx.sample({"text": "0x1Fu", "class": "INT_CONST_HEX", "type": "unsigned int"})
    ctx.sample({"text": "'\\q1'", "note": "corrupted literal"})
    if disagreements:
        what, s, io, mo = min(disagreements, key=lambda d: len(d[1]))
        broken.append({"kind": "correspondence", "name": f"lexer model vs implementation ({what})", "input": s, "implementation": io, "model": mo,
                       "count": len(disagreements)})


def replay(ctx, rp, b):
    s = rp.get("input", "")
    log("input:", repr(s), "spec class:", spec_class(s))
    log("implementation:", repr(impl_lex(s, "f.c")))
    return 0
