"""C08 - regenerated C means the same as the original to a C compiler."""
import subprocess, tempfile, shutil
from lib import *
from progsuite import *
import corpus, semgen

PROP_FILES = ["props/C08.v"]
TRANSLATORS = ["tr_lexer.py", "tr_parser_tables.py", "tr_generator_tables.py", "tr_ast.py"]
TRUSTED = ["gcc (the system C compiler) is the oracle of this property and is outside any model: compiler equivalence is decided by executing gcc -S on original and regenerated text (tested, not proved)",
           "what is proved concerns the generator model: coordinate independence for all ASTs, the mirrored precedence tables, kernel-computed regenerations of characteristic programs"]
ASSUMPTIONS = ["equality of gcc -O0 -S (and -O1 -S in the thorough tier) output with .file/.ident lines and the layout-dependent `nop` padding of -O0 removed is taken as `compiles to exactly the same code`"]


def asm(text, tmp, opt):
    src = os.path.join(tmp, "x.c")
    open(src, "w").write(text)
    p = subprocess.run(["gcc", "-std=gnu11", opt, "-S", "-w", "-o", "-", src], capture_output=True, text=True, timeout=120)
    if p.returncode != 0:
        return None, p.stderr[:300]
    # `nop` at -O0 marks statement / line boundaries of the SOURCE LAYOUT (e.g. a declaration and a goto on one line vs on two):
    # it is no code of the program, and the regenerated text has a different layout by design
    return "\n".join(l for l in p.stdout.splitlines() if not re.match(r"\s*(\.(file|ident)\b|nop\s*$)", l)), ""


def oracle(text, tmp, opts, filename="f.c"):
    """None if the property holds on this program (or it is outside the domain), else a description"""
    from pycparser import c_parser, c_generator
    a0, err = asm(text, tmp, opts[0])
    if a0 is None:
        return "SKIP-gcc"          # the compiler does not accept the original: outside the property's domain
    try:
        ast = c_parser.CParser().parse(text, filename)
    except RecursionError:
        return None
    except Exception as e:
        return "SKIP-pycparser"    # C01's concern
    for rp in (False, True):
        try:
            out = c_generator.CGenerator(reduce_parentheses=rp).visit(ast)
        except Exception as e:
            return f"CGenerator(reduce_parentheses={rp}) raised {type(e).__name__}"
        for opt in opts:
            a_orig, _ = asm(text, tmp, opt)
            a_new, err = asm(out, tmp, opt)
            if a_new is None:
                return f"gcc rejects the regenerated text (reduce_parentheses={rp}): {err[:120]}"
            if a_new != a_orig:
                return f"gcc {opt} -S output of the regenerated text differs from the original's (reduce_parentheses={rp})"
    return None


def run(ctx, b, broken):
    su = Suite(ctx, b, broken, "C08")
    ctx.notes["rule"] = "type-correct C11 programs from the semantic generator (all statement kinds, all operators, structs/unions/enums/bit-fields, function pointers, designated initializers, compound literals, qualifiers, storage classes) and the repository corpus after cpp; gcc -O0 -S (thorough: also -O1) of original vs regenerated text, both generator configurations; non-trivial = every program the compiler accepts; distinct by text"
    tmp = tempfile.mkdtemp(prefix="verif_c08_")
    opts = ["-O0"] if ctx.tier == "quick" else ["-O0", "-O1"]
    try:
        def known_oracle(text):
            r = oracle(text, tmp, ["-O0"])
            return None if r in (None, "SKIP-gcc", "SKIP-pycparser") else r
        replay_known(ctx, known_oracle)
        for text in semgen.SEMZOO:
            ctx.evaluations += 1
            r = oracle(text, tmp, opts)
            ctx.count("directed:" + (r if r in ("SKIP-gcc", "SKIP-pycparser") else "compared"))
            if r in ("SKIP-gcc", "SKIP-pycparser"):
                # these programs are accepted by gcc and by the unchanged parser: a skip is a change of behaviour
                su.violation(text, f"a directed program is no longer compared ({r})")
                continue
            ctx.nontriv(text)
            su.corr(text, tag="directed semantic programs")
            if r:
                su.violation(text, r)
        n = 150 if ctx.tier == "quick" else 1500
        for i in range(n):
            sg = semgen.Sem(ctx.rng)
            text = sg.program(nfun=ctx.rng.randint(1, 3), depth=ctx.rng.randint(1, 3))
            ctx.evaluations += 1
            r = oracle(text, tmp, opts)
            ctx.count("outcome:" + (r if r in ("SKIP-gcc", "SKIP-pycparser") else "compared"))
            if r in ("SKIP-gcc", "SKIP-pycparser"):
                continue
            ctx.nontriv(text)
            su.corr(text, tag="semantic programs")
            if r:
                su.violation(text, r)
            elif len(ctx.samples) < 2:
                ctx.sample({"text": text[-400:]})
        for name, text in corpus.corpus_texts():
            ctx.evaluations += 1
            r = oracle(text, tmp, opts, name)
            ctx.count("corpus:" + (r if r in ("SKIP-gcc", "SKIP-pycparser") else "compared"))
            if r in ("SKIP-gcc", "SKIP-pycparser"):
                continue
            ctx.nontriv(name)
            if r:
                su.violation(text if len(text) < 4000 else name, f"{name}: {r}", filename=name)
    finally:
        shutil.rmtree(tmp, ignore_errors=True)
    su.finish()
