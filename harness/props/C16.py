"""C16 - parsing work grows linearly with input size - no backtracking blow-up."""
import os, time
from lib import *
from progsuite import *

PROP_FILES = ["props/C16.v"]
TRANSLATORS = ["tr_lexer.py", "tr_parser_tables.py", "tr_ast.py"]
TRUSTED = ["cost measure = number of _TokenStream.next() calls (every token consumption, speculative ones included), read on the implementation through a counting subclass and on the model from its tick counter; the two must be equal on every input",
           "CPython's sre explores no more than a constant factor of the model's backtracking matcher (assumption); wall time is used only for the regex families, with wide margins"]
ASSUMPTIONS = []


def fam(k):
    """scalable families: name -> text of size/depth k"""
    ident = lambda i: f"v{i}"
    F = {
        "repeat-decl": " ".join(f"int v{i} = {i};" for i in range(k)),
        "repeat-func": " ".join(f"int f{i}(int a){{ return a + {i}; }}" for i in range(k)),
        "repeat-stmt": "void f(void){ " + " ".join(f"x = x * {i} + 1;" for i in range(k)) + " }",
        "repeat-struct-members": "struct S { " + " ".join(f"int m{i};" for i in range(k)) + " };",
        "repeat-enum": "enum E { " + ", ".join(f"K{i} = {i}" for i in range(k)) + " };",
        "repeat-args": "void f(void){ g(" + ", ".join(f"a{i}" for i in range(k)) + "); }",
        "repeat-initlist": "int a[] = { " + ", ".join(str(i) for i in range(k)) + " };",
        "repeat-typedef-use": "typedef int T; " + " ".join(f"T t{i};" for i in range(k)),
        "nest-parens": "int x = " + "(" * k + "1" + ")" * k + ";",
        "nest-casts": "int x = " + "(int)" * k + "1;",
        "nest-sizeof": "int x = " + "sizeof " * k + "y;",
        "nest-calls": "void f(void){ " + "g(" * k + "1" + ")" * k + "; }",
        "nest-subscripts": "void f(void){ " + "a[" * k + "1" + "]" * k + "; }",
        "nest-init-braces": "int a = " + "{" * k + "1" + "}" * k + ";",
        "nest-blocks": "void f(void)" + "{" * k + "x;" + "}" * k,
        "nest-if-else": "void f(void){ " + "if (a) x; else " * k + "y; }",
        "nest-ternary": "int x = " + "a ? b : " * k + "c;",
        "nest-pointers": "int " + "*" * k + "p;",
        "nest-arrays": "int a" + "[2]" * k + ";",
        "nest-fn-declarators": "int " + "(*" * k + "f" + ")(void)" * k + ";",
        "nest-struct": "struct S0 { " * k + "int x;" + " } m;" * k,
        "nest-typename-in-bound": "int a[" + "sizeof(int[" * k + "1" + "])" * k + "];",
        "binary-chain": "int x = " + " + ".join(f"a{i}" for i in range(k + 1)) + ";",
        "unary-chain": "int x = " + "- " * k + "y;",
        "assign-chain": "void f(void){ " + " = ".join(f"a{i}" for i in range(k + 1)) + "; }",
    }
    return F


KNOWN_FAMS = {
    "nest-complit-in-typename": lambda k: "int x = " + "(int[" * k + "1" + "]){0}" * k + ";",
    "nest-paren-fn-declarators": lambda k: "int " + "".join(f"(*f{i}(int " for i in range(k)) + "x" + "))" * k + ";",
}


def ticks(text):
    io = impl_parse(text)
    if not io.startswith("OK"):
        return None, io
    return int(io.rsplit(US, 1)[1]), io


def lex_seconds(text, limit=25):
    """CPU time of lexing text with the implementation, in a killable subprocess (CPU time: robust against machine load)"""
    import subprocess, sys
    env = dict(os.environ, PYTHONPATH=REPO, PYTHONHASHSEED="0")
    try:
        p = subprocess.run([sys.executable, os.path.join(os.path.dirname(os.path.dirname(os.path.abspath(__file__))), "lextime.py")],
                           input=text, capture_output=True, text=True, timeout=limit, env=env)
    except subprocess.TimeoutExpired:
        return "TIMEOUT", float(limit)
    try:
        return "ok", float(p.stdout.split()[0])
    except Exception:
        return "ok", 0.0       # the lexer raised: not a timing matter (C06/C09 look at that)


def run(ctx, b, broken):
    su = Suite(ctx, b, broken, "C16")
    ks = [4, 8, 16, 32] if ctx.tier == "quick" else [4, 8, 16, 32, 64, 128]
    ctx.notes["rule"] = f"25 scalable families (k-fold repetition of each declaration/statement kind, depth-k nesting of each recursive construct) at k in {ks}; token-consumption counts of implementation and model must be equal and may at most double (x2.6) when k doubles; adversarial literal families for the lexer's regexes up to 20k characters under a wall-clock margin; non-trivial = every family point; distinct by (family, k)"
    ctx.notes["thresholds"] = {"doubling_ratio_max": 2.6, "lexer_cpu_seconds_floor_20k_chars": 3.0, "lexer_cpu_seconds_floor_400_chars": 1.0, "lexer_factor_over_identifier_run": 60}
    # known super-linear families: replay, report as known findings if still super-linear
    for f in ctx.findings:
        famname = f.get("family")
        if famname in KNOWN_FAMS:
            t8, _ = ticks(KNOWN_FAMS[famname](6))
            t16, _ = ticks(KNOWN_FAMS[famname](12))
            if t8 and t16 and t16 > 2.6 * t8:
                ctx.known(f["id"], f["what"])
    for name in fam(4):
        prev = None
        for k in ks:
            text = fam(k)[name]
            ctx.evaluations += 1
            ctx.nontriv((name, k))
            t, io = ticks(text)
            su.corr(text, io, tag="cost families (tick counter)")
            if t is None:
                if io != "R":
                    su.violation(text[:2000], f"family {name} at k={k} is not accepted: {io[:100]!r}")
                break
            ctx.count("family:" + name, t)
            if prev is not None and t > 2.6 * prev[1] + 20:
                su.violation(text[:3000], f"family {name}: token consumptions grow from {prev[1]} (k={prev[0]}) to {t} (k={k}): more than doubling",
                             {"family": name, "k": k})
                break
            prev = (k, t)
        if len(ctx.samples) < 4:
            ctx.sample({"family": name, "k": ks[-1], "text": fam(ks[0])[name][:120]})
    # CPU-time families: work that the token-read counter does not see (directive handling in the lexer, AST transforms,
    # list building) - each family is parsed at size k and 2k in ONE subprocess; doubling the size must not much more than
    # double the CPU time (measured twice each, repeated when over the limit, so a loaded machine is not an alarm)
    def timed(k):
        return {
            "linemarkers": "".join(f'# {i + 1} "f{i}.h"\nint v{i};\n' for i in range(k)),
            "line-directives": "".join(f"#line {i + 1}\nint w{i};\n" for i in range(k)),
            "pragmas": "".join(f"#pragma p{i} x y\nint q{i};\n" for i in range(k)),
            "big-switch": "void f(int x){ switch (x) { " + " ".join(f"case {i}: a = {i}; b = {i}; break;" for i in range(k)) + " default: ; } }",
            "switch-label-runs": "void f(int x){ switch (x) { " + " ".join(f"case {2 * i}: case {2 * i + 1}: a = {i};" for i in range(k)) + " } }",
            "big-struct": "struct S { " + " ".join(f"int m{i}; char c{i} : 3;" for i in range(k)) + " };",
            "big-enum": "enum E { " + ", ".join(f"K{i} = {i}" for i in range(2 * k)) + " };",
            "big-initlist": "int a[] = { " + ", ".join(f"[{i}] = {i}" for i in range(2 * k)) + " };",
            "big-block": "void f(void){ " + " ".join(f"int l{i} = {i}; l{i}++;" for i in range(k)) + " }",
            "string-concat": "char *s = " + " ".join(f'"s{i}"' for i in range(4 * k)) + ";",
            "wstring-concat": "int *s = " + " ".join(f'L"w{i}"' for i in range(4 * k)) + ";",
            "array-dims": "int a" + "[1]" * k + ";",
            "many-functions": " ".join(f"int f{i}(int a, char *b){{ return a + {i}; }}" for i in range(k)),
            "typedef-uses": "typedef int T; " + " ".join(f"T t{i}; T *p{i};" for i in range(k)),
            "call-args": "void f(void){ g(" + ", ".join(f"a{i}" for i in range(4 * k)) + "); }",
            "else-if-chain": "void f(int x){ " + " ".join(f"if (x == {i}) a = {i}; else" for i in range(k // 4)) + " a = 0; }",
            # one specifier (with a body) shared by many declarators: the shared part must not be re-processed per declarator
            "struct-body-many-declarators": "struct { " + " ".join(f"int m{i};" for i in range(k)) + " } " + ", ".join(f"v{i}" for i in range(k)) + ";",
            "enum-body-many-declarators": "enum { " + ", ".join(f"E{i}" for i in range(k)) + " } " + ", ".join(f"*w{i}" for i in range(k)) + ";",
            "typedef-struct-many-names": "typedef struct Tag { " + " ".join(f"char c{i};" for i in range(k)) + " } " + ", ".join(f"T{i}" for i in range(k)) + ";",
            "prototype-many-parameters-many-declarators": "int " + ", ".join(f"f{i}(int a, char *b, long c)" for i in range(k)) + ";",
            # long runs inside ONE construct (the work per element must not depend on how many came before)
            "member-chain": "void f(void){ x = a" + ".m" * k + "; }",
            "arrow-chain": "void f(void){ x = p" + "->n" * k + "; }",
            "subscript-chain": "void f(void){ x = a" + "[1]" * k + "; }",
            "call-chain": "void f(void){ x = g" + "(1)" * k + "; }",
            "postincrement-chain": "void f(void){ x = a" + "++" * k + "; }",
            "pointer-stars": "int " + "*" * k + "p;",
            "nested-structs": "".join(f"struct S{i} {{ int a{i}; " for i in range(k // 8)) + "".join(f"}} m{i}; " for i in range(k // 8)) + "int end;",
            "nested-blocks": "void f(void){ " + "{ x++; " * (k // 8) + "}" * (k // 8) + " }",
            "nested-function-pointer-parameters": "void f0(" + "".join(f"void (*p{i})(" for i in range(k // 16)) + "int" + ")" * (k // 16) + ");",
            "linemarker-run-between-two-tokens": "int a;\n" + "".join(f'# {i + 1} "f.h"\n' for i in range(k)) + "int b;\n",
            "pragma-run": "".join(f"#pragma p{i}\n" for i in range(k)) + "int c;\n",
            "knr-parameters": "int f(" + ", ".join(f"a{i}" for i in range(k)) + ") " + " ".join(f"int a{i};" for i in range(k)) + " { return 0; }",
            "typedef-names-in-scope": " ".join(f"typedef int T{i};" for i in range(k)) + " " + " ".join(f"T{i} v{i};" for i in range(k)),
            "case-labels-one-statement": "void f(int x){ switch (x) { " + " ".join(f"case {i}:" for i in range(k)) + " x = 1; } }",
            # many names visible in an enclosing scope, then many scopes opened and closed (opening a scope must not cost more when more is visible)
            "names-then-blocks": "int " + ", ".join(f"n{i}" for i in range(k)) + "; void f(void){ " + "{ } " * k + "}",
            "names-then-functions": "int " + ", ".join(f"n{i}" for i in range(k)) + "; " + " ".join(f"void g{i}(void){{ }}" for i in range(k // 4)),
            "names-then-initializer-braces": "int " + ", ".join(f"n{i}" for i in range(k)) + "; int a[][1] = { " + ", ".join("{0}" for _ in range(k)) + " };",
        }
    import subprocess, sys as _sys

    def cpu_times(texts):
        p = subprocess.run([_sys.executable, os.path.join(os.path.dirname(os.path.dirname(os.path.abspath(__file__))), "parsetime.py")],
                           input=json.dumps(texts), capture_output=True, text=True, env=dict(os.environ, PYTHONHASHSEED="0"))
        return json.loads(p.stdout) if p.returncode == 0 else [[-1.0, 0]] * len(texts)
    K = 1200 if ctx.tier == "quick" else 3000
    MULT = {"linemarkers": 8, "line-directives": 10, "pragmas": 10, "big-switch": 3, "switch-label-runs": 4, "big-struct": 4, "big-enum": 6, "big-initlist": 4,
            "big-block": 4, "string-concat": 15, "wstring-concat": 15, "many-functions": 2, "array-dims": 2, "typedef-uses": 4, "call-args": 5, "else-if-chain": 1,
            "struct-body-many-declarators": 1, "enum-body-many-declarators": 1, "typedef-struct-many-names": 1, "prototype-many-parameters-many-declarators": 1,
            "member-chain": 1, "arrow-chain": 1, "subscript-chain": 1, "call-chain": 1, "postincrement-chain": 1, "pointer-stars": 8, "nested-structs": 1, "nested-blocks": 1,
            "nested-function-pointer-parameters": 1, "linemarker-run-between-two-tokens": 4, "pragma-run": 4, "knr-parameters": 2, "typedef-names-in-scope": 2, "case-labels-one-statement": 1,
            "names-then-blocks": 20, "names-then-functions": 20, "names-then-initializer-braces": 20}
    names = list(timed(4))
    small = {n_: timed(K * MULT[n_])[n_] for n_ in names}
    large = {n_: timed(2 * K * MULT[n_])[n_] for n_ in names}
    ts = cpu_times([small[n_] for n_ in names] + [large[n_] for n_ in names])
    ctx.notes["thresholds"]["cpu_time_doubling_ratio_max"] = 3.0
    ctx.notes["thresholds"]["function_call_doubling_ratio_max"] = 2.4
    for i, name in enumerate(names):
        (a, ca), (b_, cb) = ts[i], ts[i + len(names)]
        ctx.evaluations += 1
        ctx.count("timed-family:" + name, int(1000 * max(b_, 0)))
        ctx.nontriv(("timed", name))
        kf = [f for f in ctx.findings if f.get("timedfamily") == name]
        if a == -2.0 or b_ == -2.0:
            # the parse was stopped after 25 s of CPU time; these inputs take about half a second on the unchanged tree
            if kf:
                ctx.known(kf[0]["id"], kf[0]["what"])
                continue
            which = (small if a == -2.0 else large)[name]
            su.violation(which[:300] + " ...", f"family {name}: parsing {len(which)} characters uses more than 25 s of CPU time (about 0.6 s when the cost is linear)", {"family": name, "k": K})
            continue
        if a == -3.0 or b_ == -3.0:
            ctx.count("timed-family-not-measured-after-two-over-budget")
            continue
        if (a == -4.0 or b_ == -4.0) and name in ("case-labels-one-statement", "else-if-chain", "nested-structs", "nested-blocks", "nested-function-pointer-parameters"):
            ctx.count("timed-family-not-measured-recursion-limit")   # RecursionError is the tolerated outcome of deep nesting (these families nest by grammar)
            continue
        if a < 0 or b_ < 0:
            su.violation(small[name][:300], f"timed family {name} is not accepted")
            continue
        # deterministic: the number of function calls (Python and C level) the parse makes
        if ca > 1000 and cb > 2.4 * ca:
            if kf:
                ctx.known(kf[0]["id"], kf[0]["what"])
                continue
            su.violation(large[name][:300] + " ...", f"family {name}: the number of function calls grows from {ca} (k={K * MULT[name]}) to {cb} (k={2 * K * MULT[name]}), ratio {cb / ca:.2f}: more than doubling (limit 2.4)", {"family": name, "k": K})
            continue
        ratio = b_ / max(a, 0.02)
        if ratio > 3.0 and b_ > 0.3:
            for _ in range(3):
                (a2, _c1), (b2, _c2) = cpu_times([small[name], large[name]])
                if a2 > 0 and b2 > 0:
                    ratio = min(ratio, b2 / max(a2, 0.02))
        if ratio > 3.0 and b_ > 0.3 and kf:
            ctx.known(kf[0]["id"], kf[0]["what"])
        elif ratio > 3.0 and b_ > 0.3:
            su.violation(large[name][:300] + " ...", f"family {name}: CPU time grows from {a:.2f}s (k={K * MULT[name]}) to {b_:.2f}s (k={2 * K * MULT[name]}), ratio {ratio:.1f}: more than doubling (limit 3.0)", {"family": name, "k": K})
    # flat lists with very cheap items: the per-item cost at N items must stay what it is at N/40 items (a list copied per item,
    # a membership test on a growing list, ... only show when the list has tens of thousands of entries)
    NF = 100000 if ctx.tier == "quick" else 200000
    def flat(n_):
        return {
            "flat-initializers": "int a[] = {" + "1," * n_ + "};",
            "flat-call-arguments": "void f(void){ g(" + ",".join(["1"] * n_) + "); }",
            "flat-enumerators": "enum E {" + ",".join(f"K{i}" for i in range(n_)) + "};",
            "flat-declarators": "int " + ",".join(f"v{i}" for i in range(n_)) + ";",
            "flat-empty-statements": "void f(void){" + ";" * n_ + "}",
            "flat-members": "struct S {" + "int m;" * n_ + "};",
            "flat-parameters": "void f(" + ",".join(["int"] * n_) + ");",
            "flat-comma-expression": "void f(void){ x = (" + ",".join(["1"] * n_) + "); }",
            "flat-declarations": "int x;" * n_,
            "flat-string-pieces": "char *s = " + '"a"' * n_ + ";",
        }
    fnames = list(flat(1))
    fsmall, flarge = flat(NF // 40), flat(NF)
    ft = cpu_times([{"t": fsmall[n_], "noprof": True} for n_ in fnames] + [{"t": flarge[n_], "noprof": True, "runs": 1} for n_ in fnames])
    ctx.notes["thresholds"]["flat_per_item_cost_ratio_max"] = 3.0
    for i, name in enumerate(fnames):
        (a, _ca), (b_, _cb) = ft[i], ft[i + len(fnames)]
        ctx.evaluations += 1
        ctx.count("flat-family:" + name, int(1000 * max(b_, 0)))
        ctx.nontriv(("flat", name))
        kf = [f for f in ctx.findings if f.get("timedfamily") == name]
        if a == -3.0 or b_ == -3.0:
            ctx.count("timed-family-not-measured-after-two-over-budget")
            continue
        if a == -2.0 or b_ == -2.0:
            if kf:
                ctx.known(kf[0]["id"], kf[0]["what"])
            else:
                su.violation(flarge[name][:200] + " ...", f"family {name}: parsing {NF} list items uses more than 25 s of CPU time (about 2 s when the cost is linear)", {"family": name, "k": NF})
            continue
        if a < 0 or b_ < 0:
            su.violation(fsmall[name][:200], f"flat family {name} is not accepted")
            continue
        per_small, per_large = max(a, 0.004) / (NF // 40), b_ / NF
        ratio = per_large / per_small
        if ratio > 3.0 and b_ > 1.0:
            for _ in range(2):
                (a2, _c1), (b2, _c2) = cpu_times([{"t": fsmall[name], "noprof": True}, {"t": flarge[name], "noprof": True}])
                if a2 > 0 and b2 > 0:
                    ratio = min(ratio, (b2 / NF) / (max(a2, 0.004) / (NF // 40)))
        if ratio > 3.0 and b_ > 1.0:
            if kf:
                ctx.known(kf[0]["id"], kf[0]["what"])
            else:
                su.violation(flarge[name][:200] + " ...", f"family {name}: the CPU time per list item grows {ratio:.1f}-fold between {NF // 40} and {NF} items ({a:.3f}s and {b_:.2f}s): not linear (limit 3.0)", {"family": name, "k": NF})
    # lexer regex families (wall clock, wide margin)
    from lexcorr import impl_lex
    def lits_of(n):
        return {
            "escape-run-string": '"' + "\\\\" * (n // 2) + '"', "escape-run-unterminated": '"' + "\\x41" * (n // 4),
            "digit-run": "1" * n, "digit-run-bad-suffix": "0" * n + "9", "float-run": "1" * n + "." + "2" * 10 + "e",
            "hex-escape-char": "'" + "\\x" + "f" * n + "'", "decimal-escape": "'\\" + "7" * n + "'", "unterminated-quote": "'" + "a" * n,
            "bad-string-escape": '"' + "a" * n + "\\q" + '"', "ident-run": "a" * n, "bad-char-const": "'" + "ab" * (n // 2) + "'",
            "nested-quotes": "'\\" * (n // 2),
            "hexfloat-run": "0x" + "f" * n + ".p", "exponent-run": "1e" + "1" * n + "x", "suffix-run": "1" + "uUlL" * (n // 4),
            "wide-prefix-run": "L" * n + "'", "dots": "." * n, "string-concat-run": '"a" ' * (n // 4), "line-directive-run": "#line " + "1" * n + ' "f"\n',
            "pragma-run": "#pragma " + "x " * (n // 2) + "\n",
            # runs of INVALID escapes (the error rules of string / character literals), terminated and not
            "bad-escape-run-unterminated": '"' + "\\%" * (n // 2), "bad-escape-run-terminated": '"' + "\\%" * (n // 2) + '"',
            "bad-escape-run-char": "'" + "\\%" * (n // 2) + "'", "bad-escape-run-mixed": '"' + "a\\%\\n" * (n // 5),
        }
    # a few hundred characters must never take seconds; 20k characters get a wide linear margin.  CPU time is measured in a
    # fresh subprocess and judged RELATIVE to a linear reference workload of the same size measured at the same moment (an
    # identifier run), so that a loaded machine does not turn into an alarm; an over-limit measurement is repeated.
    for n, floor in ((400, 1.0), (20000, 3.0), (60000, 6.0)):
        fams = lits_of(n)
        base = min(lex_seconds(fams["ident-run"])[1] for _ in range(2)) + 0.01
        ctx.count(f"lexer-baseline-{n}-ms", int(base * 1000))
        for name, text in fams.items():
            out, dt = lex_seconds(text)
            limit = max(floor, 60 * base)
            if out == "TIMEOUT" or dt > limit:
                for _ in range(2):
                    base = min(base, lex_seconds(fams["ident-run"])[1] + 0.01)
                    o2, d2 = lex_seconds(text)
                    if o2 != "TIMEOUT" and d2 < dt:
                        out, dt = o2, d2
                limit = max(floor, 60 * base)
            ctx.evaluations += 1
            ctx.count(f"lexer-family-{n}:" + name)
            ctx.nontriv(("lex", name, n))
            if out == "TIMEOUT" or dt > limit:
                kf = [f for f in ctx.findings if f.get("lexfamily") == name and n >= f.get("min_chars", 0)]
                if kf:
                    ctx.known(kf[0]["id"], kf[0]["what"])
                    continue
                su.violation(text[:200] + f"... ({len(text)} chars)", f"lexing the {len(text)}-character family {name} took {dt:.1f}s of CPU (limit {limit:.1f}s = max({floor}s, 60 x the {base:.3f}s of an identifier run of the same length))", {"family": name, "chars": n})
    su.finish()
