"""C12 - a parser's result depends only on (text, filename), never on its history."""
from lib import *
from progsuite import *
import props.C06 as C06

PROP_FILES = ["props/C12.v"]
TRANSLATORS = ["tr_state.py"]
TRUSTED = ["tr_state.py reads instance-attribute writes and the reset sequences statically (Python ast)",
           "object identity (results share no nodes) is tested on the implementation, not proved"]
ASSUMPTIONS = ["parse() reads no state other than the attributes in the regenerated inventory (module globals are immutable tables: C13)"]


def outcome(p, text, fn):
    from pycparser import c_parser
    try:
        a = p.parse(text, fn)
        return "OK" + US + show_ast(a, True), a
    except c_parser.ParseError as e:
        return "E" + US + str(e), None
    except RecursionError:
        return "R", None
    except Exception as e:
        return "C" + US + type(e).__name__, None


def ids_of(n, acc):
    if n is None or isinstance(n, str):
        return
    if isinstance(n, list):
        acc.add(id(n))
        for e in n:
            ids_of(e, acc)
        return
    acc.add(id(n))
    for s in getattr(type(n), "__slots__", ()):
        if s != "__weakref__":
            ids_of(getattr(n, s), acc)


def run(ctx, b, broken):
    from pycparser import c_parser, c_lexer, c_generator
    su = Suite(ctx, b, broken, "C12")
    ctx.notes["rule"] = "sequences of 3..8 parse calls on one CParser instance (valid programs, programs failing at arbitrary points, programs that leave scopes open, programs declaring clashing typedef / variable names, lexer errors inside directives), compared call by call with fresh instances; reused CLexer after input(); reused CGenerator after successful visits; non-trivial = a history with a failing call that leaves scopes open or a typedef behind, followed by a call whose outcome would differ if state leaked; distinct by history"
    n = 300 if ctx.tier == "quick" else 4000
    leaky_pairs = [("typedef int T; void f(void){ { {", "T * x;"), ("typedef int T;", "int T; void g(void){ T = 1; }"),
                   ("int U; void h(void){", "typedef int U; U y;"), ("# 77 \"other.c\"\nint a; @", "int b; $%"),
                   ("#pragma\nint a;\n#pragma x", "int c;"), ("typedef char T; T a; }", "void T(void);"), ("void f(){ typedef int T; {", "T(x);"),
                   ("int x\n#pragma pack(1)\n", "int y;"), ("int x\n#pragma pack(1)", "#pragma z\nint y;"), ("void f(void){ x = \n#pragma omp for\n", "int z;"),
                   ("typedef unsigned long word_f }", "enum { word_f };")]
    for _ in range(n):
        p = c_parser.CParser()
        hist = []
        k = ctx.rng.randint(3, 8)
        leaky = False
        calls = []
        while len(calls) < k:
            r = ctx.rng.random()
            if r < 0.35:
                a, c = ctx.rng.choice(leaky_pairs)
                calls += [a, c]
                leaky = True
            elif r < 0.7:
                g = cgen.Gen(ctx.rng)
                toks, _ = g.program(size=ctx.rng.randint(1, 2))
                sp = [t[0] + ("\n" if t[2] == "pragma" else "") for t in toks]
                if ctx.rng.random() < 0.5:
                    sp = sp[:ctx.rng.randrange(len(sp) + 1)]      # fails (or not) in the middle of nested scopes
                    leaky = True
                calls.append(" ".join(sp))
            else:
                calls.append(" ".join(C06.mutate(["typedef", "int", "T", ";", "T", "x", ";", "void", "f", "(", "T", "T", ")", "{", "T", "++", ";", "}"], ctx.rng)))
        results = []
        bad = None
        for i, text in enumerate(calls):
            fn = ctx.rng.choice(["f.c", "g.c"])
            got, ast1 = outcome(p, text, fn)
            want, ast2 = outcome(c_parser.CParser(), text, fn)
            ctx.evaluations += 1
            if got != want and "R" not in (got, want):
                bad = (i, text, got, want)
                break
            again, ast3 = outcome(p, text, fn)
            if again != got and "R" not in (again, got):
                bad = (i, text, again, got)
                break
            if ast1 is not None and ast3 is not None:
                s1, s3 = set(), set()
                ids_of(ast1, s1)
                ids_of(ast3, s3)
                if s1 & s3:
                    bad = (i, text, "ASTs of two calls share objects", "disjoint")
                    break
            results.append(got[:1])
            if i == len(calls) - 1:
                su.corr(text, impl_parse(text, fn), filename=fn, tag="last call of a history")
        key = "\x1d".join(calls)
        if leaky:
            ctx.nontriv(key)
        ctx.count("history-outcomes:" + "".join(results))
        if bad:
            i, text, got, want = bad
            su.violation(text, f"call {i+1} of a history on a reused CParser gave {got[:120]!r}; a fresh instance gives {want[:120]!r}",
                         {"history": calls[:i + 1]})
        elif len(ctx.samples) < 3 and leaky:
            ctx.sample({"history": [c[:80] for c in calls]})
    # the same text twice on one instance, the first result edited in place in between: the second result is what a fresh
    # parser gives (a result object is never handed out twice)
    import semgen as _sg
    from pycparser import c_ast as _ca, c_parser as _cp
    for text in ["int a; int b;", "void f(void){ x = 1; }", "typedef int T; T t; struct S { T m; } s;"] + _sg.SEMZOO[:6]:
        ctx.evaluations += 1
        ctx.count("suite:same-text-twice-after-edit")
        try:
            ref = show_ast(_cp.CParser().parse(text, "same.c"), True)
            pz = _cp.CParser()
            r1 = pz.parse(text, "same.c")
            r1.ext.reverse()
            r1.ext.append(_ca.EmptyStatement())
            for e_ in r1.ext:
                if hasattr(e_, "name") and isinstance(getattr(e_, "name", None), str):
                    e_.name = e_.name + "_edited"
            r2 = pz.parse(text, "same.c")
        except Exception as ex_:
            su.violation(text, f"parsing the same text twice on one instance raised {type(ex_).__name__}: {ex_}")
            continue
        if r2 is r1 or show_ast(r2, True) != ref:
            su.violation(text, "the second parse of the same text on one instance does not give what a fresh parser gives (the first result had been edited in place)")
    # reused lexer
    from lexcorr import impl_lex_items, random_string
    for _ in range(300 if ctx.tier == "quick" else 4000):
        items = []
        lx = c_lexer.CLexer(error_func=lambda m, l, c: items.append(("E", m, l, c)), on_lbrace_func=lambda: None, on_rbrace_func=lambda: None, type_lookup_func=lambda n: False)

        def drain(limit):
            out = []
            for _ in range(limit):
                t = lx.token()
                if t is None:
                    break
                out.append((t.type, t.value, t.lineno, t.column, lx.filename))
            return out
        first = ctx.rng.choice(["#pragma a b\nint x", "# 5 \"q.c\"\nfoo bar", "a\n\nb 'x", random_string(ctx.rng)])
        lx.input(first, "one.c")
        drain(ctx.rng.randint(0, 3))
        second = random_string(ctx.rng)
        items.clear()
        lx.input(second, "two.c")
        got = (drain(1000), list(items))
        items2 = []
        lx2 = c_lexer.CLexer(error_func=lambda m, l, c: items2.append(("E", m, l, c)), on_lbrace_func=lambda: None, on_rbrace_func=lambda: None, type_lookup_func=lambda n: False)
        lx2.input(second, "two.c")
        want = []
        while True:
            t = lx2.token()
            if t is None:
                break
            want.append((t.type, t.value, t.lineno, t.column, lx2.filename))
        ctx.evaluations += 1
        ctx.count("suite:lexer-reuse")
        if got != (want, items2):
            su.violation(second, "a reused CLexer after input() differs from a fresh one", {"previous_input": first})
    # reused generator
    gen = c_generator.CGenerator()
    import semgen
    hand = [(None, t_, None) for t_, _v in ZOO] + [(None, t_, None) for t_ in semgen.SEMZOO]
    ctx.rng.shuffle(hand)
    for g, toks, exp in hand + list(gen_cases(ctx, 100 if ctx.tier == "quick" else 1500)):
        text = toks if g is None and isinstance(toks, str) else cgen.layout(toks, ctx.rng, "single")[0]
        try:
            a = parse_impl_ast(text)
        except Exception:
            continue
        try:
            t1 = gen.visit(a)
        except Exception:
            # the generator raised (a listed C07 finding, e.g. the _Pragma operator): what the instance is worth afterwards is
            # not the subject here - reuse is checked after SUCCESSFUL visits
            gen = c_generator.CGenerator()
            continue
        ctx.evaluations += 1
        ctx.count("suite:generator-reuse")
        if gen.indent_level != 0:
            su.violation(text, f"CGenerator.indent_level is {gen.indent_level} after a successful visit")
            gen = c_generator.CGenerator()
        elif t1 != c_generator.CGenerator().visit(a):
            su.violation(text, "a reused CGenerator produced different text than a fresh one")
        else:
            # the same tree again after an in-place edit: the reused generator must print what a fresh one prints now
            from pycparser import c_ast
            edited = False
            for e in a.ext:
                if isinstance(e, c_ast.FuncDef) and isinstance(e.body, c_ast.Compound):
                    e.body.block_items = (e.body.block_items or []) + [c_ast.Return(c_ast.Constant("int", "42"))]
                    edited = True
                    break
                if isinstance(e, c_ast.Decl) and isinstance(e.type, c_ast.TypeDecl) and e.name:
                    e.name = e.type.declname = e.name + "_renamed"
                    edited = True
                    break
            if edited:
                try:
                    t2, t3 = gen.visit(a), c_generator.CGenerator().visit(a)
                except Exception:
                    continue
                ctx.count("suite:generator-reuse-after-edit")
                if t2 != t3:
                    su.violation(text, "a reused CGenerator visiting the same tree again after an in-place edit printed stale text (a fresh generator prints the edited tree)")
    su.finish()
