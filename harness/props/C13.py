"""C13 - separate parser/generator instances never influence each other."""
import threading, sys as _sys
from lib import *
from progsuite import *

PROP_FILES = ["props/C13.v"]
TRANSLATORS = ["tr_state.py"]
TRUSTED = ["preemptive thread switches happen between bytecodes under the GIL; the model has no bytecode level: free-running threads are tested, not proved"]
ASSUMPTIONS = ["a step of an instance reads and writes only that instance's attributes (static inventory, C13_no_shared_mutable)"]


def run_scheduled(texts, schedule):
    """Interleave len(texts) real parses token by token with a scheduling lexer injected through lexer=."""
    from pycparser import c_parser, c_lexer
    n = len(texts)
    turn = threading.Condition()
    state = {"cur": None, "sched": list(schedule), "done": [False] * n}

    def next_turn():
        # pick the next live instance from the schedule (round-robin when it is exhausted)
        while state["sched"]:
            k = state["sched"].pop(0)
            if not state["done"][k]:
                state["cur"] = k
                return
        live = [i for i in range(n) if not state["done"][i]]
        state["cur"] = live[0] if live else None

    def make_lexer(k):
        class SchedLexer(c_lexer.CLexer):
            def token(self):
                with turn:
                    while state["cur"] != k:
                        turn.wait(timeout=5)
                    t = c_lexer.CLexer.token(self)
                    next_turn()
                    turn.notify_all()
                    return t
        return SchedLexer
    results = [None] * n

    def worker(k):
        try:
            p = c_parser.CParser(lexer=make_lexer(k))
            try:
                a = p.parse(texts[k], f"f{k}.c")
                results[k] = "OK" + US + show_ast(a, True)
            except c_parser.ParseError as e:
                results[k] = "E" + US + str(e)
            except RecursionError:
                results[k] = "R"
            except Exception as e:
                results[k] = "C" + US + type(e).__name__
        finally:
            with turn:
                state["done"][k] = True
                if state["cur"] == k:
                    next_turn()
                turn.notify_all()
    with turn:
        next_turn()
    ths = [threading.Thread(target=worker, args=(k,), daemon=True) for k in range(n)]
    for t in ths:
        t.start()
    for t in ths:
        t.join(timeout=60)
    return results


def solo(text, k):
    from pycparser import c_parser
    try:
        a = c_parser.CParser().parse(text, f"f{k}.c")
        return "OK" + US + show_ast(a, True)
    except c_parser.ParseError as e:
        return "E" + US + str(e)
    except RecursionError:
        return "R"
    except Exception as e:
        return "C" + US + type(e).__name__


CLASH = ["typedef int T; T x; void f(void){ T * y; { int T; T * 3; } }", "int T; void g(void){ T * 2; { typedef char T; T z; } }",
         "typedef char U; # 9 \"u.c\"\nU a, b; struct S { U T; } s;", "void T(void){ } int U = sizeof(T);", "typedef int T, U; T f(U T){ return T; } @",
         # constructs whose tokens are NOT pre-buffered by the declarator lookahead: every token fetch inside them is a switch point
         "void f(void){ x = (char * const * volatile *) y + sizeof(int **); z = (long *[2]){0, 0}; }",
         "int g(void){ return sizeof(struct S *) + (unsigned) (T * *) p + _Alignof(char *); }",
         "void h(int (*cb)(char *, int **), void *(*alloc)(unsigned long)) { cb((char *) 0, (int **) 0); }",
         "# 5 \"a.h\"\nint a1;\n# 7\nint a2;\n#line 20\nint a3; void k(void){ a1 = (int) sizeof(a2 ? (short *) 0 : (short *) 1); }",
         "#line 3\nint b1;\n# 9 \"b.h\"\nint b2;\n#line 3\nint b3;",
         # deep nesting (well inside what a solo parse can do) next to short inputs that finish first
         "int deep = " + "(" * 60 + "1" + ")" * 60 + ";", "int deeper = " + "(" * 150 + "1" + ")" * 150 + ";", "int deepest = " + "(" * 400 + "1" + ")" * 400 + ";", "void d(void){ " + "if (a) { " * 40 + "x;" + " }" * 40 + " }", "int z;"]


def run(ctx, b, broken):
    su = Suite(ctx, b, broken, "C13")
    ctx.notes["rule"] = "2..4 parses of programs with clashing typedef / variable names and different file names, interleaved token by token under an explicit schedule (random schedules, plus all schedules of two 6-token inputs in the thorough tier) through a scheduling lexer injected via the public lexer= parameter, and free-running threads with a minimal switch interval; each result compared with a solo run; non-trivial = >= 2 context switches while both parses have open scopes and clashing names; distinct by (texts, schedule)"
    n = 150 if ctx.tier == "quick" else 2500
    for _ in range(n):
        k = ctx.rng.randint(2, 4)
        texts = []
        for i in range(k):
            if ctx.rng.random() < 0.6:
                texts.append(ctx.rng.choice(CLASH))
            else:
                g = cgen.Gen(ctx.rng)
                toks, _ = g.program(size=1)
                texts.append(cgen.layout(toks, ctx.rng, "random")[0])
        sched = [ctx.rng.randrange(k) for _ in range(ctx.rng.randint(10, 120))]
        res = run_scheduled(texts, sched)
        ctx.evaluations += 1
        ctx.count(f"instances:{k}")
        switches = sum(1 for a, c in zip(sched, sched[1:]) if a != c)
        if switches >= 2:
            ctx.nontriv(repr((texts, sched)))
        for i in range(k):
            want = solo(texts[i], i)
            # a RecursionError is tolerated only when the input is too deep for a solo run as well
            if res[i] != want and want != "R":
                su.violation(texts[i], f"instance {i} under an interleaved schedule gave {str(res[i])[:100]!r}; alone it gives {want[:100]!r}",
                             {"texts": texts, "schedule": sched})
                break
        if len(ctx.samples) < 3:
            ctx.sample({"texts": [t[:60] for t in texts], "schedule": sched[:30]})
    # instances used one after the other in ONE process (no interleaving at all), each on its own input - valid programs,
    # programs failing at every kind of place - against what each input gives in a fresh interpreter where nothing else ever ran
    pool = CLASH + ["typedef unsigned long word_f }", "typedef int T ; }", "typedef char U ; } }", "int T ; }", "struct S { int T ; } ; }", "void f ( void ) { typedef int W ; } }",
                    "enum { word_f } ;", "void g ( void ) { word_f : ; T : ; U : ; W : ; }", "int word_f , W ;", "typedef int T ; T a ;", "U b ;", "W c ;", "T * d ;",
                    "# 9 \"z.h\"\nint q ; @", "int r ;", "#pragma once\nint s", "#pragma", "__builtin_va_list ap ;", "typedef int __builtin_va_list ;"]
    seqs = []
    for _ in range(40 if ctx.tier == "quick" else 600):
        seqs.append([(ctx.rng.choice(pool), f"s{j}.c") for j in range(ctx.rng.randint(2, 6))])
    distinct = sorted({it for sq in seqs for it in sq})
    fresh = dict(zip(distinct, pristine_outcomes(distinct)))
    from pycparser import c_parser as _cp
    for sq in seqs:
        ctx.evaluations += 1
        ctx.count("suite:sequential-instances")
        ctx.nontriv(repr(sq))
        for j, (text, fn) in enumerate(sq):
            try:
                got = "OK" + US + show_ast(_cp.CParser().parse(text, fn), True)
            except _cp.ParseError as e:
                got = "E" + US + str(e)
            except RecursionError:
                got = "R"
            except Exception as e:
                got = "C" + US + type(e).__name__
            if got != fresh[(text, fn)] and fresh[(text, fn)] != "R":
                su.violation(text, f"a brand-new CParser used after other instances gave {got[:100]!r}; in a fresh interpreter the same call gives {fresh[(text, fn)][:100]!r}",
                             {"earlier_instances_parsed": [t for t, _ in sq[:j]]})
                break
    # free-running threads
    from pycparser import c_generator
    old = _sys.getswitchinterval()
    _sys.setswitchinterval(1e-6)
    try:
        for _ in range(20 if ctx.tier == "quick" else 300):
            texts = [ctx.rng.choice(CLASH) for _ in range(4)]
            out = [None] * 4

            def w(i):
                out[i] = solo(texts[i], i)
            ths = [threading.Thread(target=w, args=(i,)) for i in range(4)]
            for t in ths:
                t.start()
            for t in ths:
                t.join()
            ctx.evaluations += 1
            ctx.count("suite:free-threads")
            for i in range(4):
                if out[i] != solo(texts[i], i):
                    su.violation(texts[i], "a parse running concurrently with others differs from a solo run", {"texts": texts})
    finally:
        _sys.setswitchinterval(old)
    su.finish()
