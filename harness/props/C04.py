"""C04 - an identifier is a type name exactly where C scoping makes it one."""
from lib import *
from progsuite import *

PROP_FILES = ["props/C04.v"]
TRANSLATORS = ["tr_lexer.py", "tr_parser_tables.py", "tr_ast.py"]
TRUSTED = ["the generator's own scope bookkeeping (C99 6.2.1 block scopes) decides what each probe must parse as"]
ASSUMPTIONS = ["histories avoid the constructs listed as known findings (for-init scope, enumerator / label / prototype-parameter reuse of a typedef name, initializer seeing its own declarator)"]

NAMES = ["T", "U"]


class Hist:
    """builds a program while tracking C's scopes; probes are `int zN = sizeof ( NAME ) ;`"""
    def __init__(self, rng):
        self.rng = rng
        self.scopes = [{}]      # name -> True (typedef) / False (ordinary)
        self.out = []
        self.probes = []        # (probe variable, name, expected is_type)
        self.n = 0
        self.shadow = self.exits = 0

    def lookup(self, n):
        for s in reversed(self.scopes):
            if n in s:
                return s[n]
        return None

    def probe(self, n):
        st = self.lookup(n)
        if st is None:
            return
        self.n += 1
        if len(self.scopes) > 1 and self.rng.random() < 0.5:
            # inside a function body: an expression-statement probe, which declares nothing (a declaration would itself
            # change the parser's symbol-table state right after the probe)
            self.out.append(f"z{self.n} = sizeof ( {n} ) ;")
        else:
            self.out.append(f"int z{self.n} = sizeof ( {n} ) ;")
        self.probes.append((f"z{self.n}", n, st))

    def probes_all(self):
        # not after every event: a use followed directly by a scope exit / another use must be observable too
        for n in NAMES:
            if self.rng.random() < 0.6:
                self.probe(n)

    def decl(self, n, is_typedef):
        cur = self.scopes[-1]
        if n in cur and cur[n] != is_typedef:
            return False
        prev = self.lookup(n)
        if is_typedef:
            self.out.append(f"typedef {self.rng.choice(['int', 'char *', 'long'])} {n} ;")
        else:
            # `T T;` style is avoided when the name is visible as a type in the same declaration
            form = self.rng.randint(0, 5)
            bt = self.rng.choice(['int', 'char', 'double'])
            if form <= 1:
                self.out.append(f"{bt} {self.rng.choice(['', '* '])}{n} ;")
            elif form == 2:
                self.out.append(f"{bt} {n} ( int ) ;")            # a function declaration is an ordinary identifier too
            elif form == 3:
                self.out.append(f"{bt} {n} [ 2 ] ;")
            elif form == 4:
                self.out.append(f"{bt} ( * {n} ) ( void ) ;")
            else:
                self.out.append(f"{bt} other{self.n} , {n} ;")
        if prev is not None and prev != is_typedef:
            self.shadow += 1
        cur[n] = is_typedef
        return True

    def block(self, depth):
        r = self.rng
        for _ in range(r.randint(1, 4)):
            k = r.randint(0, 7)
            n = r.choice(NAMES)
            if k == 0:
                self.decl(n, True)
            elif k == 1:
                self.decl(n, False)
            elif k == 2 and depth > 0:
                self.out.append("{")
                self.scopes.append({})
                self.block(depth - 1)
                self.scopes.pop()
                self.exits += 1
                self.out.append("}")
            elif k == 6 and depth > 0 and self.lookup(n) is not None:
                # directed: shadow the name with the opposite kind in a nested block, use it there (or not), leave the block,
                # and look at the name again at once - with nothing in between that could refresh the parser's view
                outer = self.lookup(n)
                self.out.append("{")
                self.scopes.append({})
                self.decl(n, not outer)
                for _ in range(r.randint(0, 2)):
                    if self.lookup(n) is False and r.random() < 0.5:
                        self.out.append(r.choice([f"{n} = 1 ;", f"( {n} ) ;", f"{n} ++ ;"]))
                    else:
                        self.probe(n)
                self.scopes.pop()
                self.exits += 1
                self.shadow += 1
                self.out.append("}")
                self.probe(n)
            elif k == 3:
                self.out.append(f"struct S{self.n} {{ int {n} ; }} ;")      # member names never matter
                self.n += 1
            elif k == 4:
                self.out.append(f"struct {n} * sp{self.n} ;")               # tags never matter
                self.n += 1
            elif k == 5 and self.lookup(n) is False:
                self.out.append(self.rng.choice([f"{n} = 1 ;", f"( {n} ) ;", f"{n} ++ ;", f"g ( {n} , {n} ) ;"]))     # plain uses of an ordinary identifier
            self.probes_all()

    def program(self):
        r = self.rng
        for _ in range(r.randint(2, 5)):
            k = r.randint(0, 5)
            n = r.choice(NAMES)
            if k == 0:
                self.decl(n, True)
            elif k == 1:
                self.decl(n, False)
            elif k == 2:
                # function definition; parameters live in the body's scope
                self.n += 1
                pn = r.choice(NAMES + ["pp"])
                ptype = "int"
                if self.lookup(pn) is True and r.random() < 0.5:
                    ptype = pn          # `T T`: the second T is the parameter's name
                lead = self.rng.choice(["", "", "int , ", "char q1 , ", "int , double , "])     # earlier (possibly unnamed) parameters
                trail = self.rng.choice(["", "", " , long", " , ..."])
                self.out.append(f"void fn{self.n} ( {lead}{ptype} {pn}{trail} ) {{")
                self.scopes.append({pn: False})
                if self.lookup(pn) is not None:
                    self.shadow += 1
                self.block(2)
                self.scopes.pop()
                self.exits += 1
                self.out.append("}")
            elif k == 5 and self.lookup(n) is None:
                # the name has no declaration at all so far in this unit: it is an ordinary identifier wherever it appears -
                # as the name of a function being defined, an enumerator, or a label
                form = r.randint(0, 2)
                self.n += 1
                if form == 0:
                    self.out.append(f"int {n} ( int k{self.n} ) {{ return k{self.n} ; }}")
                    self.scopes[-1][n] = False
                elif form == 1:
                    self.out.append(f"enum {{ E{self.n} , {n} }} ;")
                    self.scopes[-1][n] = False
                else:
                    self.out.append(f"void lab{self.n} ( void ) {{ goto {n} ; {n} : ; }}")       # labels have their own name space: nothing changes
            elif k == 3:
                self.n += 1
                self.out.append(f"void proto{self.n} ( int {n} ) ;")         # prototype-only parameter names never matter
            elif k == 4:
                self.out.append(f"struct Q{self.n} {{ int {n} ; char c ; }} ;")
                self.n += 1
            self.probes_all()
        return " ".join(self.out)


def check_probes(ast, probes):
    found = {}

    def walk(n):
        if n is None or isinstance(n, str):
            return
        if isinstance(n, list):
            for e in n:
                walk(e)
            return
        if type(n).__name__ == "Decl" and isinstance(n.name, str) and n.name.startswith("z") and n.init is not None:
            found[n.name] = type(n.init.expr).__name__
        if type(n).__name__ == "Assignment" and type(n.lvalue).__name__ == "ID" and n.lvalue.name.startswith("z") and type(n.rvalue).__name__ == "UnaryOp":
            found[n.lvalue.name] = type(n.rvalue.expr).__name__
        for s in type(n).__slots__:
            if s not in ("coord", "__weakref__"):
                walk(getattr(n, s))
    walk(ast)
    for z, name, is_type in probes:
        want = "Typename" if is_type else "ID"
        if found.get(z) != want:
            return f"probe {z}: sizeof({name}) parsed as {found.get(z)}, but {name} is {'a typedef name' if is_type else 'an ordinary identifier'} there ({want} expected)"
    return None


def run(ctx, b, broken):
    su = Suite(ctx, b, broken, "C04")
    ctx.notes["rule"] = "histories of typedef / object / parameter / tag / member declarations of 2 names across file scope, function parameter+body scopes and nested blocks (depth <= 3), probed with `sizeof(NAME)` after every event and scope exit; non-trivial = history with >= 1 shadowing and >= 1 scope exit; distinct by text"

    def oracle_known(text):
        io = impl_parse(text)
        return None if io.startswith("OK") else f"rejected: {io[:100]}"
    replay_known(ctx, oracle_known)
    n = 1500 if ctx.tier == "quick" else 20000
    from pycparser import c_parser as _cp
    veteran = _cp.CParser()          # parses every history as well: what a name is must not depend on what the parser saw before
    for _ in range(n):
        h = Hist(ctx.rng)
        text = h.program()
        ctx.evaluations += 1
        if h.shadow >= 1 and h.exits >= 1:
            ctx.nontriv(text)
        io = impl_parse(text)
        su.corr(text, io, tag="scope histories")
        try:
            ast = parse_impl_ast(text)
            bad = check_probes(ast, h.probes)
        except Exception as ex:
            bad = f"valid history rejected: {type(ex).__name__}: {ex}"
        if not bad:
            try:
                bad = check_probes(veteran.parse(text, "f.c"), h.probes)
                if bad:
                    bad = "on a CParser that parsed other programs before: " + bad
            except Exception as ex:
                bad = f"valid history rejected by a CParser that parsed other programs before: {type(ex).__name__}: {ex}"
        if bad:
            su.violation(text, bad)
        elif len(ctx.samples) < 4 and h.shadow and h.exits:
            ctx.sample({"text": text[:400]})
    # hand-written programs (rarely used productions): model and implementation must agree on each, tree and coordinates
    for text, _valid in ZOO:
        ctx.evaluations += 1
        ctx.count("suite:zoo")
        su.corr(text, impl_parse(text), tag="hand-written programs")
    su.finish()
