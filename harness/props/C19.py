"""C19 - every fake libc header preprocesses and parses via parse_file."""
import glob, tempfile, shutil
from lib import *
from progsuite import *

PROP_FILES = ["props/C19.v"]
TRANSLATORS = ["tr_lexer.py", "tr_parser_tables.py", "tr_ast.py"]
TRUSTED = ["cpp (the system preprocessor) and the 129 header files are outside any Gallina model: header acceptance is an exhaustive execution on the implementation (and, through the extracted parser model, a correspondence), not a kernel-checked theorem",
           "the behaviour of include guards / macro expansion (the `any others in any order` part) is tested only"]
ASSUMPTIONS = ["cpp is a deterministic function of its argument list"]


def run(ctx, b, broken):
    import pycparser
    from pycparser import c_parser, c_ast
    su = Suite(ctx, b, broken, "C19")
    fake = os.path.join(REPO, "utils", "fake_libc_include")
    headers = sorted(os.path.relpath(p, fake) for p in glob.glob(os.path.join(fake, "**", "*.h"), recursive=True))
    dialects = ["-std=c99"] if ctx.tier == "quick" else ["-std=c99", "-std=c11", "-std=gnu99", "-std=gnu11"]
    ctx.notes["rule"] = f"all {len(headers)} headers under utils/fake_libc_include x dialects {dialects} x cpp_args as list and (without dialect) as str; random subsets/orders followed by declarations using every typedef name of _fake_typedefs.h; non-trivial = every header case; distinct by (header, dialect, form)"
    ctx.notes["exhaustive"] = True
    tmp = tempfile.mkdtemp(prefix="verif_c19_")
    try:
        # every typedef name written in the header's text, whatever conditional surrounds it
        tds = []
        for line in open(os.path.join(fake, "_fake_typedefs.h")):
            m = re.match(r"\s*typedef\s+.*?\b(\w+)\s*;\s*(?://.*|/\*.*)?$", line)
            if m:
                tds.append(m.group(1))
        # argument assembly: model vs implementation (capturing the command line)
        captured = []
        orig = pycparser.check_output
        pycparser.check_output = lambda pl, **kw: (captured.append(list(pl)), "int x;")[1]
        try:
            for args in ["", "-Ifoo", ["-Ifoo", "-DX=1"], [], ["a b"], "a b", ["", "x"]]:
                captured.clear()
                pycparser.preprocess_file("file.c", "mycpp", args)
                ctx.evaluations += 1
                if su.model:
                    al = args if isinstance(args, list) else [args]
                    req = Model.enc(40, 1 if isinstance(args, list) else 0, "mycpp", "file.c", len(al), *al)
                    mo = su.model.raw(req).split(RS)
                    ctx.traces += 1
                    if mo != captured[0]:
                        broken.append({"kind": "correspondence", "name": "CppArgs.path_list vs preprocess_file", "input": repr(args),
                                       "implementation": captured[0], "model": mo})
        finally:
            pycparser.check_output = orig
        for h in headers:
            src = os.path.join(tmp, "t_" + h.replace("/", "_") + ".c")
            with open(src, "w") as f:
                f.write(f"#include <{h}>\n")
            for d in dialects:
                for form in ("list", "str"):
                    if form == "str" and d != dialects[0]:
                        continue
                    args = [d, "-I" + fake] if form == "list" else "-I" + fake
                    ctx.evaluations += 1
                    ctx.nontriv((h, d, form))
                    ctx.count("form:" + form)
                    try:
                        ast = pycparser.parse_file(src, use_cpp=True, cpp_args=args)
                    except Exception as e:
                        su.violation(f"#include <{h}>", f"parse_file failed for header {h} ({d}, cpp_args as {form}): {type(e).__name__}: {str(e)[:120]}")
                        continue
                    text = pycparser.preprocess_file(src, "cpp", args)
                    manual = c_parser.CParser().parse(text, src)
                    if show_ast(ast, True) != show_ast(manual, True):
                        su.violation(f"#include <{h}>", f"parse_file result differs from preprocessing and parsing by hand ({h}, {d})")
                    if form == "list" and d == dialects[0]:
                        su.corr(text, impl_parse(text, src), filename=src, tag="preprocessed fake headers")
            if len(ctx.samples) < 3:
                ctx.sample({"header": h, "dialects": dialects})
        # "identical to preprocessing and parsing by hand" with the file named by a RELATIVE path, cpp run by this harness (not through
        # preprocess_file): same tree, same coordinates (the file names in the linemarkers are what cpp was given)
        import subprocess as _sp
        cwd0 = os.getcwd()
        try:
            os.chdir(tmp)
            for h in [x for x in headers if x in ("stdio.h", "stdlib.h", "string.h", "stdint.h", "assert.h", "sys/types.h")] + headers[:4]:
                rel = "r_" + h.replace("/", "_") + ".c"
                with open(os.path.join(tmp, rel), "w") as f_:
                    f_.write(f"#include <{h}>\nint own_object = 1;\nint own_function(int own_parameter);\n")     # nodes located in the file itself
                for relname in (rel, "./" + rel):
                    ctx.evaluations += 1
                    ctx.count("form:relative-path")
                    hand = _sp.run(["cpp", "-I" + fake, relname], capture_output=True, text=True)
                    if hand.returncode != 0:
                        continue
                    try:
                        ast = pycparser.parse_file(relname, use_cpp=True, cpp_args=["-I" + fake])
                    except Exception as e:
                        su.violation(f"#include <{h}>", f"parse_file failed for the relative file name {relname}: {type(e).__name__}: {str(e)[:120]}")
                        continue
                    manual = c_parser.CParser().parse(hand.stdout, relname)
                    if show_ast(ast, True) != show_ast(manual, True):
                        su.violation(f"#include <{h}>", f"parse_file({relname!r}) differs (tree or coordinates) from running cpp on {relname!r} by hand and parsing its output")
        finally:
            os.chdir(cwd0)
        # order dependence, searched directly: a macro that header A leaves defined and that occurs as an identifier in the
        # preprocessed text of header B changes B when A comes first - every such ordered pair is tried
        import subprocess

        def cpp_out(text, extra):
            srcp = os.path.join(tmp, "probe.c")
            with open(srcp, "w") as f:
                f.write(text)
            p = subprocess.run(["cpp", "-std=c99", "-I" + fake] + extra + [srcp], capture_output=True, text=True, timeout=60)
            return p.stdout if p.returncode == 0 else ""
        builtin = set(re.findall(r"^#define (\w+)", cpp_out("", ["-dM"]), re.M))
        macros_after, idents = {}, {}
        for h in headers:
            macros_after[h] = set(re.findall(r"^#define (\w+)", cpp_out(f"#include <{h}>\n", ["-dM"]), re.M)) - builtin
            body = "\n".join(l for l in cpp_out(f"#include <{h}>\n", []).split("\n") if not l.startswith("#"))
            idents[h] = set(re.findall(r"\b[A-Za-z_]\w*\b", re.sub(r'"(?:[^"\\\n]|\\.)*"', '""', body)))
        pairs = [(a, b_) for a in headers for b_ in headers if a != b_ and macros_after[a] & idents[b_]]
        ctx.notes["order_sensitive_pairs"] = len(pairs)
        for a, b_ in (pairs if len(pairs) <= 400 or ctx.tier == "thorough" else ctx.rng.sample(pairs, 400)):
            src = os.path.join(tmp, "pair.c")
            with open(src, "w") as f:
                f.write(f"#include <{a}>\n#include <{b_}>\n")
            ctx.evaluations += 1
            ctx.count("suite:ordered-pairs")
            ctx.nontriv(("pair", a, b_))
            try:
                pycparser.parse_file(src, use_cpp=True, cpp_args=["-std=c99", "-I" + fake])
            except Exception as e:
                su.violation(f"#include <{a}>\n#include <{b_}>", f"{b_} included after {a} fails: {type(e).__name__}: {str(e)[:120]} (macros of the first that occur in the second: {sorted(macros_after[a] & idents[b_])[:4]})")
        # every typedef name a header's own text declares is usable after including that header alone, and after including
        # ALL headers together (in directory order and reversed); two headers with the same include-guard macro are tried as a pair
        own = {}
        guards = {}
        for h in headers:
            txt = open(os.path.join(fake, h)).read()
            # names the header's own text declares by typedef AND that survive preprocessing of the header alone
            # (a typedef under a conditional that is false for this dialect is not expected)
            alone = cpp_out(f"#include <{h}>\n", [])
            defined_alone = set(re.findall(r"\btypedef\s+[^;{}]*?\b(\w+)\s*;", alone))
            own[h] = sorted(set(re.findall(r"^[ \t]*typedef\s+[^;{}]*?\b(\w+)\s*;", txt, re.M)) & defined_alone)
            m = re.search(r"#\s*ifndef\s+(\w+)\s*\n\s*#\s*define\s+\1\b", txt)
            if m:
                guards.setdefault(m.group(1), []).append(h)

        def usable(incs, names, what):
            src = os.path.join(tmp, "own.c")
            with open(src, "w") as f:
                f.write("".join(f"#include <{h_}>\n" for h_ in incs))
                f.write("".join(f"{t} u_{i};\n" for i, t in enumerate(names)))
            ctx.evaluations += 1
            ctx.count("suite:" + what)
            ctx.nontriv((what, tuple(incs[:3]), len(incs)))
            try:
                ast = pycparser.parse_file(src, use_cpp=True, cpp_args=["-std=c99", "-I" + fake])
                got = {e.name for e in ast.ext if isinstance(e, c_ast.Decl)}
                miss = [t for i, t in enumerate(names) if f"u_{i}" not in got]
                if miss:
                    su.violation("\n".join(f"#include <{h_}>" for h_ in incs[:6]), f"{what}: type names {miss[:4]} declared by the headers are not usable as types")
            except Exception as e:
                su.violation("\n".join(f"#include <{h_}>" for h_ in incs[:6]) + (f"\n... ({len(incs)} headers)" if len(incs) > 6 else ""),
                             f"{what}: {type(e).__name__}: {str(e)[:120]}")
        real = [h for h in headers if not os.path.basename(h).startswith("_")]
        for h in real:
            if own[h]:
                usable([h], own[h], "own-typedefs")
            # "afterwards every type name the fake headers define is usable": each header ALONE makes the central list available
            usable([h], tds, "central-typedefs-after-one-header")
        allnames = sorted({t for h in real for t in own[h]} | set(tds))
        usable(real, allnames, "all-headers")
        usable(list(reversed(real)), allnames, "all-headers-reversed")
        for g_, hs in guards.items():
            if len(hs) > 1:
                for a in hs:
                    for b_ in hs:
                        if a != b_:
                            usable([a, b_], sorted(set(own[a]) | set(own[b_])), "shared-include-guard")
        # the same path rewritten with different content of the same size and parsed again at once: parse_file must read what is
        # there now (equal to preprocessing and parsing by hand), whatever it saw before
        same = os.path.join(tmp, "same.c")
        variants = ["#include <stdio.h>\nint a1;\n", "#include <ctype.h>\nint b2;\n", "#include <errno.h>\nint c3;\n", "#include <stdio.h>\nint d4;\n"]
        for body in variants + variants[:2]:
            with open(same, "w") as f:
                f.write(body)
            ctx.evaluations += 1
            ctx.count("suite:same-path-rewritten")
            ctx.nontriv(("same-path", body))
            try:
                a1 = pycparser.parse_file(same, use_cpp=True, cpp_args=["-std=c99", "-I" + fake])
                txt = pycparser.preprocess_file(same, cpp_args=["-std=c99", "-I" + fake])
                a2 = pycparser.c_parser.CParser().parse(txt, same)
                want = body.split()[-1].rstrip(";")
                names = [e.name for e in a1.ext if isinstance(e, c_ast.Decl)]
                if want not in names or repr(a1) != repr(a2):
                    su.violation(body, f"parse_file of a rewritten file does not show its current content (expected a declaration of {want}; got {names[-3:]})")
            except Exception as e:
                su.violation(body, f"parse_file of a rewritten file failed: {type(e).__name__}: {str(e)[:100]}")
        # the caller's cpp_args list is not changed by the call, and can be reused
        args = ["-std=c99", "-I" + fake]
        keep = list(args)
        for _ in range(3):
            ctx.evaluations += 1
            ctx.count("suite:args-list-reused")
            try:
                pycparser.parse_file(same, use_cpp=True, cpp_args=args)
            except Exception as e:
                su.violation("cpp_args list reused", f"parse_file with a reused cpp_args list failed: {type(e).__name__}: {str(e)[:100]}")
                break
            if args != keep:
                su.violation("cpp_args list reused", f"parse_file changed the caller's cpp_args list to {args}")
                break
        # typedef names usable after including headers in random subsets / orders
        for _ in range(20 if ctx.tier == "quick" else 300):
            sub = ctx.rng.sample(headers, ctx.rng.randint(1, 6))
            # the internal helper files (_fake_defines.h, _fake_typedefs.h, X11/_X11_fake_*.h) are not libc headers:
            # make sure at least one real header (which pulls in the central typedef list) is present
            if all(os.path.basename(h).startswith("_") for h in sub):
                sub.append(ctx.rng.choice([h for h in headers if not os.path.basename(h).startswith("_")]))
            src = os.path.join(tmp, "subset.c")
            with open(src, "w") as f:
                f.write("".join(f"#include <{h}>\n" for h in sub))
                f.write("".join(f"{t} v_{i};\n" for i, t in enumerate(tds)))
            ctx.evaluations += 1
            ctx.count("suite:subsets")
            try:
                dl = ctx.rng.choice(["-std=c99", "-std=c11", "-std=gnu99", "-std=gnu11"])
                ast = pycparser.parse_file(src, use_cpp=True, cpp_args=[dl, "-I" + fake])
                names = {e.name for e in ast.ext if isinstance(e, c_ast.Decl)}
                if not all(f"v_{i}" in names for i in range(len(tds))):
                    su.violation("\n".join(sub), "a typedef name of _fake_typedefs.h was not usable as a type")
            except Exception as e:
                su.violation("\n".join(f"#include <{h}>" for h in sub), f"subset of fake headers failed: {type(e).__name__}: {str(e)[:120]}")
    finally:
        shutil.rmtree(tmp, ignore_errors=True)
    su.finish()
