"""C01 - every valid C99 / supported-C11 translation unit is accepted."""
import os, shutil, subprocess, tempfile
from lib import *
from progsuite import *
import corpus

PROP_FILES = ["props/C01.v"]
TRANSLATORS = ["tr_lexer.py", "tr_parser_tables.py", "tr_ast.py"]
TRUSTED = ["validity of the generated programs: they are derivations of the generator's C99 grammar (harness/cgen.py); gcc -fsyntax-only is used in the thorough tier on the type-correct subset only as a cross-check of the generator"]
ASSUMPTIONS = ["C01_full (acceptance of every derivation of Annex A) is not proved; the theorems are the table theorems (FIRST sets, keywords, punctuators, operators) and the acceptance witnesses"]

KNOWN_INPUTS = {}


def run(ctx, b, broken):
    su = Suite(ctx, b, broken, "C01")
    ctx.notes["rule"] = "programs derived from the generator's C99/C11 grammar (declarations with all declarator forms, struct/union/enum, initializers with designators, function definitions, every statement kind, every operator), each under a random layout; the repository corpus after cpp; non-trivial = >= 3 top-level items or nesting depth >= 2; distinct by text"
    n = 1200 if ctx.tier == "quick" else 15000

    def oracle(text):
        io = impl_parse(text)
        return None if io.startswith("OK") or io == "R" else f"valid program rejected: {io[:160]!r}"
    replay_known(ctx, oracle)
    for text, valid in ZOO:
        if valid:
            ctx.evaluations += 1
            ctx.count("suite:zoo")
            ctx.nontriv(text)
            io = impl_parse(text)
            su.corr(text, io, tag="hand-written programs")
            if not (io.startswith("OK") or io == "R"):
                su.violation(text, f"a valid program was rejected: {io[:160]!r}")
    for g, toks, exp in gen_cases(ctx, n, size=(1, 5)):
        g.avoid_known = True
        text, pos = cgen.layout(toks, ctx.rng, ctx.rng.choice(["single", "random", "lines"]))
        ctx.evaluations += 1
        ctx.count("suite:generated")
        if len(exp[2][0][1]) >= 3:
            ctx.nontriv(text)
        io = impl_parse(text)
        su.corr(text, io, tag="generated programs")
        if not (io.startswith("OK") or io == "R"):
            su.violation(text, f"a program derived from the C99/C11 grammar was rejected: {io[:160]!r}")
        elif len(ctx.samples) < 4:
            ctx.sample({"text": text[:300]})
    # the system C compiler as an independent judge of validity: whatever gcc accepts under -std=c99 / -std=c11
    # -pedantic-errors (and that uses no double-underscore extension keyword) must be accepted
    import semgen

    def gcc_accepts(text, std):
        with tempfile.NamedTemporaryFile("w", suffix=".c", delete=False) as f:
            f.write(text)
        try:
            p = subprocess.run(["gcc", f"-std={std}", "-pedantic-errors", "-fsyntax-only", "-w", "-x", "c", f.name], capture_output=True, text=True, timeout=60)
            return p.returncode == 0, p.stderr
        finally:
            os.unlink(f.name)
    have_gcc = shutil.which("gcc") is not None
    ctx.notes["gcc"] = "available" if have_gcc else "absent: compiler-judged suites skipped"
    if have_gcc:
        for i in range(40 if ctx.tier == "quick" else 600):
            text = semgen.Sem(ctx.rng).program(ctx.rng.randint(1, 3), ctx.rng.randint(1, 3))
            ok, err = gcc_accepts(text, "c11")
            ctx.evaluations += 1
            ctx.count("suite:gcc-semantic" + (":accepted" if ok else ":rejected-by-gcc"))
            if not ok:
                continue
            ctx.nontriv(text)
            io = impl_parse(text)
            su.corr(text, io, tag="compiler-accepted programs")
            if not (io.startswith("OK") or io == "R"):
                su.violation(text, f"a program gcc -std=c11 -pedantic-errors accepts was rejected: {io[:160]!r}")
        # grammar-derived programs that happen to be semantically valid as well
        for g, toks, exp in gen_cases(ctx, 250 if ctx.tier == "quick" else 4000, size=(1, 2)):
            g.avoid_known = True
            text, pos = cgen.layout(toks, ctx.rng, "single")
            if "__" in text:
                continue
            std = ctx.rng.choice(["c99", "c11"])
            ok, err = gcc_accepts(text, std)
            ctx.evaluations += 1
            ctx.count(f"suite:gcc-on-grammar-derived:{std}" + (":accepted" if ok else ":rejected-by-gcc"))
            if not ok:
                if "expected" in err and "before" in err:
                    ctx.count("note:gcc-reports-syntax-error-on-grammar-derived")
                continue
            ctx.nontriv(text)
            io = impl_parse(text)
            if not (io.startswith("OK") or io == "R"):
                su.violation(text, f"a program gcc -std={std} -pedantic-errors accepts was rejected: {io[:160]!r}")
    # large translation units (about 90 000 tokens) full of constructs that make the parser look ahead and back up
    # (parenthesised declarators, casts, sizeof of a type name, compound literals), shifted by every small token offset
    unit = lambda i: (f"int ( * fp{i} ) ( int , char * ) ; int v{i} = ( int ) ( v0 ) + sizeof ( int * ) ; "
                      f"struct S{i} {{ int a , ( * b ) [ 2 ] ; }} ; void g{i} ( void ) {{ int * p = ( int [ 2 ] ) {{ 1 , 2 }} ; ( void ) p ; }} ")
    body = "int v0 ; " + "".join(unit(i) for i in range(1, 1500))
    shifts = ["", "int s ; ", "int * s ; ", "int s , t ; ", "int s [ 1 ] ; ", "int s ; int * t ; ", "int * s ; int * t ; ", "int s ; int t ; int u ; "]
    for sh in (shifts[:4] if ctx.tier == "quick" else shifts):
        text = sh + body
        ctx.evaluations += 1
        ctx.count("suite:large-unit")
        ctx.nontriv(("large", sh))
        io = impl_parse(text, count=False)
        if not (io.startswith("OK") or io == "R"):
            su.violation(text[:400] + f" ... ({len(text.split())} tokens)", f"a valid large translation unit ({len(text.split())} tokens, prefix {sh!r}) was rejected: {io[:160]!r}")
    texts = corpus.corpus_texts() + (corpus.big_corpus_texts() if ctx.tier == "thorough" else [])
    for name, text in texts:
        ctx.evaluations += 1
        ctx.count("suite:corpus")
        ctx.nontriv(name)
        io = impl_parse(text, name)
        if len(text) < 400000:
            su.corr(text, io, filename=name, tag="corpus")
        if not io.startswith("OK"):
            su.violation(text if len(text) < 5000 else name, f"corpus file {name} rejected: {io[:160]!r}", filename=name)
    su.finish()
