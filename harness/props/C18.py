"""C18 - structurally malformed input is always rejected."""
import itertools
from lib import *
from progsuite import *

PROP_FILES = ["props/C18.v"]
TRANSLATORS = ["tr_lexer.py", "tr_parser_tables.py", "tr_ast.py"]
TRUSTED = []
ASSUMPTIONS = []
OPEN, CLOSE = "([{", ")]}"
PAIR = {"(": ")", "[": "]", "{": "}"}


def balanced(seq):
    st = []
    for c in seq:
        if c in OPEN:
            st.append(c)
        elif c in CLOSE:
            if not st or PAIR[st.pop()] != c:
                return False
    return not st


def run(ctx, b, broken):
    su = Suite(ctx, b, broken, "C18")
    ctx.notes["rule"] = "single-bracket deletions / duplications / kind swaps and single-position injections of non-token text into generated (accepted) programs; all bracket strings up to length L (4 quick, 6 thorough) in expression / declarator / statement contexts; non-trivial = mutant of a program with bracket depth >= 2; distinct by text"

    def must_reject(text, why, nontriv=True):
        ctx.evaluations += 1
        io = impl_parse(text)
        if nontriv:
            ctx.nontriv(text)
        su.corr(text, io, tag="malformed input")
        if io.startswith("OK"):
            su.violation(text, f"accepted although {why}", {"observed": io[:300]})
        elif not io.startswith("E" + US) and io != "R":
            su.violation(text, f"not rejected with ParseError ({io[:60]!r}) although {why}")
    # recorded findings: replayed, reported as KNOWN-FINDING while they still reproduce
    for f in ctx.findings:
        if f.get("property") == "C18" and f.get("input"):
            if impl_parse(f["input"]).startswith("OK"):
                ctx.known(f["id"], f["what"])
    for text in ["#pragmatic x\nint a;", "#pragma_once\nint a;", "#pragmas omp\nint a;", "#pragma2\nint a;", "#linear 3\nint a;", "#line3\nint a;", "# pragmax\nint a;",
                 "void f(void){\n#pragmatic y\n}", "struct S {\n#pragma_ z\n int m; };", "#include <x.h>\nint a;", "#if 1\nint a;\n#endif", "#\nint a;", "# define X\nint a;",
                 "#ident \"v1.2\"\nint a;", "#sccs \"x\"\nint a;", "void f(void){\n#ident \"in body\"\n}", "# ident \"v\"\nint a;", "#warning w\nint a;", "#error e\nint a;", "#undef X\nint a;",
                 "#ifdef X\nint a;\n#endif", "#ifndef X\nint a;\n#endif", "int a;\n#else\nint b;", "int a;\n#elif 1\nint b;", "int a;\n#endif", "#import <x.h>\nint a;", "#include_next <x.h>\nint a;",
                 "#assert m(x)\nint a;", "#unassert m\nint a;", "#line\nint a;", "#pragma_once\nint a;", "#Pragma x\nint a;", "#LINE 3\nint a;", "#lines 3\nint a;", "#1a\nint a;", "#\t\nint a;",
                 "int x = 1'2 + 3;", "int y = 12'345;", "int z = 0x1'f;", "double d = 1'0.5;", "int w = 1'2'3;", "int a[1'0];", "void f(int c){ switch (c) { case 1'0: ; } }", "int v = 1'000'000;", "long l = 10'0L;",
                 "int x; \x1a }}} @ ((", "int x;\x1a", "int x = 1;\n\x1a\nint y = ;", "int \x00 x;", "int x; \x04", "int x\x1b;", "int\x08 x;"]:
        ctx.count("suite:directive-names")
        must_reject(text, "it contains a preprocessor directive other than #line / #pragma, or a character sequence that is not a C token", True)
    nprog = 120 if ctx.tier == "quick" else 1500
    # characters that are neither C tokens nor C white space: control characters and the non-ASCII "spaces" of str.isspace()
    ODD = ["\xa0", "\x85", "\u2003", "\u2028", "\u2029", "\u3000", "\x1c", "\x1d", "\x1e", "\x1f", "\x01", "\x7f", "\ufeff", "\u200b", "\x1a", "\x00", "\x04", "\x1b", "\x08", "\x0e"]
    inj = ["@", "`", "\\", "/* c */", "// c\n", "'", "#define X 1\n", "#include <x.h>\n", "$#", "\"unterminated"] + ODD
    for g, toks, exp in gen_cases(ctx, nprog, size=(1, 2)):
        sp = [t[0] + ("\n" if t[2] == "pragma" else "") for t in toks]
        base = " ".join(sp)
        if not impl_parse(base).startswith("OK"):
            continue
        depth = mx = 0
        for s in sp:
            if s in OPEN:
                depth += 1
                mx = max(mx, depth)
            elif s in CLOSE:
                depth -= 1
        idxs = [i for i, s in enumerate(sp) if s in OPEN + CLOSE]
        for i in (idxs if len(idxs) <= 12 else ctx.rng.sample(idxs, 12)):
            ctx.count("mutation:bracket")
            must_reject(" ".join(sp[:i] + sp[i + 1:]), f"bracket token {i} ({sp[i]}) was deleted", mx >= 2)
            must_reject(" ".join(sp[:i] + [sp[i]] + sp[i:]), f"bracket token {i} ({sp[i]}) was duplicated", mx >= 2)
            other = ctx.rng.choice([c for c in (OPEN if sp[i] in OPEN else CLOSE) if c != sp[i]])
            must_reject(" ".join(sp[:i] + [other] + sp[i + 1:]), f"bracket token {i} ({sp[i]}) was replaced by {other}", mx >= 2)
        for _ in range(6):
            i = ctx.rng.randrange(len(sp) + 1)
            # not inside a pragma line: a pragma's text is free-form
            if i > 0 and sp[i - 1].startswith("#pragma") and not sp[i - 1].endswith("\n"):
                continue
            x = ctx.rng.choice(inj)
            ctx.count("mutation:injection")
            must_reject(" ".join(sp[:i] + [x] + sp[i:]), f"non-token text {x!r} was injected", True)
        # the same, glued to a neighbouring token (no blank in between) or put inside an identifier / keyword / number
        glue = ["@", "`", "\\", "\\u", "\\U", "\\x", "'", "??/", "\\\n"] + ODD
        cand = [i for i, s_ in enumerate(sp) if s_ and s_[0] not in "'\"#" and not (s_[0] in "LuU" and ("'" in s_ or '"' in s_))]
        for _ in range(6):
            if not cand:
                break
            i = ctx.rng.choice(cand)
            x = ctx.rng.choice(glue)
            tokx = sp[i]
            k = ctx.rng.randint(0, 2)
            if k == 0:
                mut = x + tokx
            elif k == 1:
                mut = tokx + x
            else:
                j = ctx.rng.randrange(len(tokx) + 1)
                mut = tokx[:j] + x + tokx[j:]
            # a quote in front of / inside a token may pair up with nothing: still not a token sequence of the original grammar;
            # only `'` glued so that it forms a valid character constant would be legitimate - it cannot, the rest of the line has no closing quote
            if x == "'" and "'" in " ".join(sp[i + 1:]).split("\n")[0]:
                continue
            ctx.count("mutation:glued-injection")
            must_reject(" ".join(sp[:i] + [mut] + sp[i + 1:]), f"non-token text {x!r} was glued to / put inside token {i} ({tokx})", True)
        # junk after a line directive / linemarker (the directive line is outside literals and pragma text)
        text, _pos = cgen.layout(toks, ctx.rng, "random")
        lines = text.split("\n")
        dl = [i for i, l in enumerate(lines) if re.match(r"\s*#\s*(line\s+)?\d", l)]
        if dl and impl_parse(text).startswith("OK"):
            i = ctx.rng.choice(dl)
            junk = ctx.rng.choice([" @", " `", " \\", " /* c */", " x", " ]] }", " 3 4 @", " \"a\" \"b\"", " 1 2 x", " ;"])
            ctx.count("mutation:directive-junk")
            must_reject("\n".join(lines[:i] + [lines[i] + junk] + lines[i + 1:]), f"junk {junk!r} follows a line directive", True)
    # texts with compiler-extension keywords (rejected as they are): whatever is done about such keywords, brackets inside
    # and around them must still nest and balance, and nothing after them may be swallowed
    EXT = ["__attribute__ ( ( aligned ( 8 ) ) ) int x ;", "int y __attribute__ ( ( unused ) ) ;", "int a ; __attribute__ ( ( noreturn ) ) void die ( void ) ; int b ;",
           "__extension__ int z ;", "__asm__ ( \"nop\" ) ;", "void f ( void ) { __asm__ ( \"nop\" : : ) ; }", "__typeof__ ( x ) w ;", "int __declspec ( dllexport ) v ;",
           "struct S { int m ; } __attribute__ ( ( packed ) ) ;", "int f ( int a __attribute__ ( ( unused ) ) ) { return a ; }", "__inline int g ( void ) { return 1 ; }",
           "_Pragma ( \"x\" ) int q ;", "__builtin_va_list ap ;", "int r = __builtin_offsetof ( struct S , m ) ;"]
    for base in EXT:
        spx = base.split(" ")
        idxs = [i for i, s_ in enumerate(spx) if s_ in OPEN + CLOSE]
        for i in idxs:
            ctx.count("mutation:bracket-in-extension-text")
            must_reject(" ".join(spx[:i] + spx[i + 1:]), f"bracket token {i} ({spx[i]}) was deleted", True)
            other = ctx.rng.choice([c for c in (OPEN if spx[i] in OPEN else CLOSE) if c != spx[i]])
            must_reject(" ".join(spx[:i] + [other] + spx[i + 1:]), f"bracket token {i} ({spx[i]}) was replaced by {other}", True)
            must_reject(" ".join(spx[:i] + [spx[i]] + spx[i:]), f"bracket token {i} ({spx[i]}) was duplicated", True)
    L = 4 if ctx.tier == "quick" else 6
    ctxs = [("int v = 1 ", " ;", "expression"), ("void f(void){ x ", " ; }", "statement"), ("int d ", " ;", "declarator")]
    for n in range(1, L + 1):
        for seq in itertools.product("()[]{}", repeat=n):
            if balanced(seq):
                continue
            for pre, suf, name in ctxs:
                ctx.count("bracket-strings:" + name)
                must_reject(pre + " ".join(seq) + suf, "its brackets do not balance", n >= 3)
    # long programs (tens of thousands of tokens, a speculative `( type-name )` attempt at every parenthesis, every token offset
    # modulo 4 tried): the whole text is seen by the parser - the tree is the model's, and a bracket deleted, duplicated or
    # swapped ANYWHERE in it (near the end in particular) is still noticed
    NST = 3000 if ctx.tier == "quick" else 12000
    for off in range(4):
        body = " ".join(["(a%d);" % (i % 7) if i % 3 else "b[(i%d)] = (c)(d);" % (i % 5) for i in range(NST)])
        text = "int pad;" * off + " void f(void){ " + body + " }"
        sp = text.split()
        ctx.evaluations += 1
        ctx.count("long-program")
        ctx.nontriv(("long", off))
        io = impl_parse(text)
        su.corr(text, io, tag="long programs")
        if not io.startswith("OK"):
            su.violation(text[:300] + " ...", f"a long valid program ({len(text)} characters) is not accepted: {io[:80]!r}")
            continue
        toks = re.findall(r"[A-Za-z_0-9]+|[()\[\]{};=]", text)
        idx = [i for i, t in enumerate(toks) if t in "()[]{}"]
        for _ in range(6):
            i = idx[-1 - ctx.rng.randrange(min(len(idx), 4000))] if ctx.rng.random() < 0.7 else ctx.rng.choice(idx)
            kind = ctx.rng.randrange(3)
            if kind == 0:
                mt = toks[:i] + toks[i + 1:]
                why = f"bracket token {i} of {len(toks)} ({toks[i]}) was deleted"
            elif kind == 1:
                mt = toks[:i] + [toks[i]] + toks[i:]
                why = f"bracket token {i} of {len(toks)} ({toks[i]}) was duplicated"
            else:
                other = ctx.rng.choice([c for c in ("([{" if toks[i] in "([{" else ")]}") if c != toks[i]])
                mt = toks[:i] + [other] + toks[i + 1:]
                why = f"bracket token {i} of {len(toks)} ({toks[i]}) was replaced by {other}"
            ctx.count("mutation:long-program")
            ctx.evaluations += 1
            mio = impl_parse(" ".join(mt))
            if mio.startswith("OK"):
                su.violation(" ".join(mt[max(0, i - 40):i + 40]), f"a long program is accepted although {why}", {"observed": mio[:200]})
            elif not mio.startswith("E" + US) and mio != "R":
                su.violation(" ".join(mt[max(0, i - 40):i + 40]), f"a long program is not rejected with ParseError ({mio[:60]!r}) although {why}")
    ctx.sample({"text": "int f ( int a ) { return a [ 1 ; }", "mutation": "deleted ]"})
    ctx.sample({"text": "int v = 1 ( ] ;", "why": "unbalanced"})
    su.finish()
