"""C05 - statement ASTs mirror C's statement nesting and source order."""
from lib import *
from progsuite import *

PROP_FILES = ["props/C05.v"]
TRANSLATORS = ["tr_lexer.py", "tr_parser_tables.py", "tr_ast.py"]
TRUSTED = ["expected statement trees come from the generator's own reading of C99 6.8 and of the documented switch regrouping, independent of c_parser.py / ast_transforms.py"]
ASSUMPTIONS = []


def run(ctx, b, broken):
    su = Suite(ctx, b, broken, "C05")
    ctx.notes["rule"] = "function bodies over {expression, empty, compound, if, if-else (incl. dangling else), while, do, for (3 init forms), switch/case/default, label, goto, break, continue, return, declaration, static assertion, pragma}; non-trivial = depth >= 2 with >= 2 distinct statement kinds; distinct by text"
    n = 1500 if ctx.tier == "quick" else 20000
    for i in range(n):
        g = cgen.Gen(ctx.rng)
        g.switch_pragmas = True
        tk = cgen.Toks()
        depth = ctx.rng.randint(1, 3)
        body = ("compound", [g.block_item(depth) for _ in range(ctx.rng.randint(1, 4))])
        tk.adds("void", "f", "(", "void", ")")
        exp = g.emit_stmt(body, tk)[0]
        text, pos = cgen.layout(tk.t, ctx.rng, "single")
        ctx.evaluations += 1
        kinds = set(re.findall(r"'(compound|if|while|do|for|switch|label|pragma|static_assert|declstmt|return|goto|break|continue|expr|empty)'", repr(body)))
        for k in kinds:
            ctx.count("stmt:" + k)
        if depth >= 2 and len(kinds) >= 3:
            ctx.nontriv(text)
        io = impl_parse(text)
        su.corr(text, io, tag="statements")
        try:
            ast = parse_impl_ast(text)
            dd = cgen.diff(exp, from_py(ast.ext[0].body), "body")
        except Exception as ex:
            dd = f"rejected or crashed: {type(ex).__name__}: {ex}"
        if dd:
            su.violation(text, "statement tree differs from C's statement nesting / source order: " + dd)
        elif len(ctx.samples) < 5 and len(kinds) >= 4:
            ctx.sample({"text": text})
    # hand-written programs (rare statement forms: pragma runs with _Pragma in front of sub-statements, stacked labels, nested
    # switches, ...): model and implementation must agree on each
    for text, _valid in ZOO:
        ctx.evaluations += 1
        ctx.count("suite:zoo")
        su.corr(text, impl_parse(text), tag="hand-written programs")
    su.finish()
