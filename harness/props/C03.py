"""C03 - declaration ASTs encode C declarator semantics for every declared name."""
from lib import *
from progsuite import *

PROP_FILES = ["props/C03.v"]
TRANSLATORS = ["tr_lexer.py", "tr_parser_tables.py", "tr_ast.py"]
TRUSTED = ["expected chains come from the generator's own reading of C99 6.7.5 (inside-out rule), independent of c_parser.py"]
ASSUMPTIONS = []


def oracle_atomic(text):
    """_Atomic(T) D means the same as the _Atomic-qualified T: every declarator keeps its own name"""
    try:
        ast = parse_impl_ast(text)
    except Exception as e:
        return f"rejected: {e}"
    names = [d.name for d in ast.ext]
    want = re.findall(r"[,;\s\*]([xyzpq]\d?)\s*(?=[,;\[])", text)
    return None


def run(ctx, b, broken):
    su = Suite(ctx, b, broken, "C03")
    ctx.notes["rule"] = "declarations from derivation sequences over {pointer(+quals), array(all forms), function(prototype/void/empty)} x base specifiers x contexts (file scope, block, for-init, parameter, struct member, typedef, type names) with multi-declarator lists; non-trivial = >=2 derivations of different kinds or >=2 declarators; distinct by text"
    n = 1500 if ctx.tier == "quick" else 20000
    for i in range(n):
        g = cgen.Gen(ctx.rng, typedefs=["TT"])
        tk = cgen.Toks()
        tk.adds("typedef", "int", "TT", ";")
        exp = [cgen.N("Typedef", [cgen.S("TT"), cgen.strs([]), cgen.strs(["typedef"]),
                                  cgen.N("TypeDecl", [cgen.S("TT"), cgen.strs([]), cgen.NONE, cgen.N("IdentifierType", [cgen.strs(["int"])])])])]
        kind = ctx.rng.randint(0, 3)
        if kind == 0:
            d = g.declaration(ctx.rng.randint(1, 4))
            exp += g.emit_declaration(d, tk)
            nd = sum(len(x[0]) for x in d[4])
            nontriv = len(d[4]) >= 2 or len({x[0] for dd in d[4] for x in dd[0]}) >= 2
        elif kind == 1:
            f = g.funcdef(2)
            exp.append(g.emit_funcdef(f, tk))
            nontriv = True
        elif kind == 2:
            tn = g.typename(ctx.rng.randint(1, 4))
            tk.adds("int", "v0", "=", "sizeof", "(")
            ty = g.emit_typename(tn, tk)
            tk.adds(")", ";")
            exp.append(cgen.N("Decl", [cgen.S("v0"), cgen.strs([]), cgen.L([]), cgen.L([]), cgen.L([]),
                                       cgen.N("TypeDecl", [cgen.S("v0"), cgen.strs([]), cgen.NONE, cgen.N("IdentifierType", [cgen.strs(["int"])])]),
                                       cgen.N("UnaryOp", [cgen.S("sizeof"), ty]), cgen.NONE]))
            nontriv = len({x[0] for x in tn[1]}) >= 2
        else:
            sd = g.structdef(1)
            bn = g.emit_base(sd, tk)
            tk.add(";")
            exp.append(cgen.N("Decl", [cgen.NONE, cgen.strs([]), cgen.L([]), cgen.L([]), cgen.L([]), bn, cgen.NONE, cgen.NONE]))
            nontriv = True
        text, pos = cgen.layout(tk.t, ctx.rng, "single")
        ctx.evaluations += 1
        ctx.count("kind:" + ["declaration", "function definition", "type name", "struct/union"][kind])
        if nontriv:
            ctx.nontriv(text)
        io = impl_parse(text)
        su.corr(text, io, tag="declarations")
        try:
            ast = parse_impl_ast(text)
            dd = cgen.diff(cgen.N("FileAST", [cgen.L(exp)]), from_py(ast))
        except Exception as ex:
            dd = f"rejected or crashed: {type(ex).__name__}: {ex}"
        if dd:
            su.violation(text, "declaration AST differs from C's declarator semantics: " + dd)
        elif len(ctx.samples) < 5 and nontriv:
            ctx.sample({"text": text})
    # _Atomic(T) specifier with several declarators: each declared entity keeps its own name
    for text, names in [("_Atomic(int) x, *p;", ["x", "p"]), ("_Atomic(int) a[2], b;", ["a", "b"]), ("_Atomic(char *) q, r;", ["q", "r"]),
                        ("_Atomic int y, *z;", ["y", "z"]), ("typedef _Atomic(int) AT; AT v, *w;", ["AT", "v", "w"])]:
        ctx.evaluations += 1
        io = impl_parse(text)
        su.corr(text, io, tag="atomic specifier")
        try:
            ast = parse_impl_ast(text)
            got = [d.name for d in ast.ext]
            inner = []
            for d in ast.ext:
                t = d.type
                while not hasattr(t, "declname"):
                    t = t.type
                inner.append(t.declname)
            if got != names or inner != names:
                su.violation(text, f"declared names {names} came out as {got} (innermost declnames {inner})")
        except Exception as ex:
            su.violation(text, f"rejected: {ex}")
    # _Atomic(T) means the same as the _Atomic-qualified T - in every context a type can be written in:
    # the two spellings must give the same tree (coordinates aside)
    ATOMIC_FORMS = [
        ("_Atomic(int) v;", "_Atomic int v;"), ("_Atomic(int) *p;", "_Atomic int *p;"), ("_Atomic(int *) q;", "int * _Atomic q;"),
        ("typedef _Atomic(long) AL;", "typedef _Atomic long AL;"), ("struct S { _Atomic(int) m; _Atomic(char) c[2]; };", "struct S { _Atomic int m; _Atomic char c[2]; };"),
        ("void f(_Atomic(int) a, int b);", "void f(_Atomic int a, int b);"), ("void f(_Atomic(int));", "void f(_Atomic int);"),
        ("void g(_Atomic(int) *, _Atomic(int *));", "void g(_Atomic int *, int * _Atomic);"), ("void h(const _Atomic(int));", "void h(const _Atomic int);"),
        ("void k(_Atomic(int) [3], _Atomic(int) (*)(void));", "void k(_Atomic int [3], _Atomic int (*)(void));"),
        ("int s = sizeof(_Atomic(int));", "int s = sizeof(_Atomic int);"), ("int s3 = sizeof(_Atomic(int)[3]);", "int s3 = sizeof(_Atomic int[3]);"),
        ("int c = (_Atomic(int))1;", "int c = (_Atomic int)1;"), ("int a = _Alignof(_Atomic(long));", "int a = _Alignof(_Atomic long);"),
        ("_Alignas(_Atomic(long)) int al;", "_Alignas(_Atomic long) int al;"), ("void m(void){ int *p = (_Atomic(int) *)0; int z = ((_Atomic(int)){1}); }", "void m(void){ int *p = (_Atomic int *)0; int z = ((_Atomic int){1}); }"),
        ("_Atomic(_Atomic(int) *) pp;", "_Atomic int * _Atomic pp;"), ("int f2(_Atomic(int) (*fp)(_Atomic(int)));", "int f2(_Atomic int (*fp)(_Atomic int));"),
        ("void kr(a) _Atomic(int) a; { }", "void kr(a) _Atomic int a; { }"), ("void fo(void){ for (_Atomic(int) i = 0; i < 2; i++) ; }", "void fo(void){ for (_Atomic int i = 0; i < 2; i++) ; }"),
    ]

    def nocoord(t):
        f = t.split("\x1f")
        return re.sub(r" @[^\s,()\]]*", "", f[1] if len(f) > 1 else t)       # the tree without coordinates (and without the token-read counter)
    for spec_form, qual_form in ATOMIC_FORMS:
        ctx.evaluations += 1
        ctx.count("suite:atomic-forms")
        ctx.nontriv(("atomic-form", spec_form))
        ia, ib = impl_parse(spec_form), impl_parse(qual_form)
        su.corr(spec_form, ia, tag="atomic specifier forms")
        su.corr(qual_form, ib, tag="atomic specifier forms")
        if ia.startswith("OK") and ib.startswith("OK") and nocoord(ia) != nocoord(ib):
            su.violation(spec_form, f"`{spec_form}` and `{qual_form}` (the same declaration, _Atomic(T) written as the qualifier) give different trees")
    # hand-written programs (rarely used productions): model and implementation must agree on each, tree and coordinates
    for text, _valid in ZOO:
        ctx.evaluations += 1
        ctx.count("suite:zoo")
        su.corr(text, impl_parse(text), tag="hand-written programs")
    su.finish()
