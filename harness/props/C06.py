"""C06 - parse() either returns a FileAST or raises ParseError - nothing else."""
import itertools
from lib import *
from progsuite import *

PROP_FILES = ["props/C06.v"]
TRANSLATORS = ["tr_lexer.py", "tr_parser_tables.py", "tr_ast.py"]
TRUSTED = ["RecursionError (nesting deeper than the interpreter's recursion limit) is the one tolerated escape; the model's counterpart is fuel exhaustion"]
ASSUMPTIONS = []

ALPHA = ["int", "T", "x", "typedef", "struct", "enum", "{", "}", "(", ")", "[", "]", ";", ",", "*", "=", "1", "'a'", "\"s\"", "+", ":", "?", "sizeof", "if",
         "else", "for", "case", "return", "...", "const", "static", ".", "->", "++", "_Atomic", "_Alignas", "_Static_assert", "#pragma p\n", "goto",
         "while", "do", "switch", "default", "break", "void", "unsigned", "&", "_Alignof", "offsetof", "_Pragma", "inline", "union", "1.5", "L\"w\"",
         "==", "<<", "+=", "!", "~", "-", "continue", "__int128", "volatile", "'ul'", "0x1p3", "#", "@", "u8\"s\"", "'", "/*"]
PREFIXES = ["", "typedef int T; ", "void f(void){ ", "struct S { ", "int x = ", "typedef int T; void f(void){ ", "int f("]


LITERALS = ["0", "7", "08", "0x4", "0X1f", "0b11", "0B0", "017", "1u", "2UL", "3ll", "4LLU", "5lu", "0x", "1.5", "1e3", ".5f", "0x1p3", "1.0L", "'a'", "'ab'", "L'a'",
            "u'a'", "U'a'", "u8'a'", "'\\n'", "'\\x41'", "''", "\"s\"", "L\"s\"", "-1", "(2)", "1+1", "sizeof(int)", "x", "K", "1 ? 2 : 3", "(int)1", "1uu", "1lul", "0x1g", "09", "1e", "'",
            "1.5e+3", "0777777777777777777777", "99999999999999999999999999", "0b", "0b2", "1_000", "1'000", "$", "a$b", "\\", "??"]
LIT_CONTEXTS = ["struct S { unsigned f : @; };", "struct S { int : @; };", "struct S { unsigned f : @, g : @; } s;", "int a[@];", "int a[@][@];", "void f(int a[static @]);",
                "enum E { K = @ };", "enum E { A, B = @, C };", "void f(void){ switch (x) { case @: break; } }", "int x = @;", "int a[] = { [@] = 1 };", "int a[] = { [@ ... @] = 1 };",
                "_Static_assert(@, \"m\");", "_Alignas(@) int x;", "int x = sizeof(char[@]);", "void f(void){ return @; }", "void f(void){ g(@, @); }", "int x = (int[@]){0}[0];",
                "void f(void){ if (@) ; while (@) ; for (;@;) ; }", "int x = @ + @;", "int x = - @;", "int x = a[@];", "char *s = @;", "#line @\nint x;", "# @ \"f.c\"\nint x;", "#pragma @\nint x;",
                "void f(void){ x = _Alignof(int[@]); }", "void f(void){ x = offsetof(struct S, m[@]); }", "struct S { _Alignas(@) int m; };", "int f(int a[@]);", "int (*p)[@];", "typedef int T[@];"]


def classify(outcome, filename="f.c", text=""):
    """None if the outcome is allowed by the property, else a description"""
    if outcome.startswith("OK") or outcome == "R":
        return None
    if outcome == "TIMEOUT":
        return "parse() did not terminate within the time limit"
    if outcome.startswith("E" + US):
        msg = outcome.split(US, 1)[1]
        # the file names a location may mention: the one given to parse() and those set by line directives
        names = {filename} | set(re.findall(r'#[ \t]*(?:line[ \t]+)?\d+[ \t]+"((?:[^"\\\n]|\\.)*)"', text))
        for nm in names:
            nm2 = nm.lstrip('"').rstrip('"')
            if msg.startswith(nm2 + ": ") or re.match(r"^" + re.escape(nm2) + r":\d+(:\d+)?: ", msg):
                return None
        return f"ParseError message does not start with a source location: {msg[:80]!r}"
    if outcome.startswith("C" + US):
        return f"{outcome.split(US)[1]} escaped from parse()"
    return f"unexpected outcome {outcome[:60]!r}"


def mutate(toks, rng):
    toks = list(toks)
    k = rng.randint(0, 5)
    i = rng.randrange(len(toks)) if toks else 0
    pool = ALPHA
    if k == 0 and toks:
        del toks[i]
    elif k == 1:
        toks.insert(i, rng.choice(pool))
    elif k == 2 and toks:
        toks[i] = rng.choice(pool)
    elif k == 3 and len(toks) > 1:
        j = rng.randrange(len(toks))
        toks[i], toks[j] = toks[j], toks[i]
    elif k == 4 and toks:
        toks.insert(i, toks[i])
    else:
        toks = toks[:i]
    return toks


def run(ctx, b, broken):
    su = Suite(ctx, b, broken, "C06")
    ctx.notes["rule"] = "all sequences of <= N token classes (N=2 quick, 3 thorough) over a 70-entry alphabet after 7 context prefixes; token-level mutants (delete/insert/replace/swap/duplicate/truncate, up to 3 per program) of generated programs; raw character noise; non-trivial = the parser consumed at least 2 tokens before deciding (input of >= 2 tokens beyond the prefix); distinct by text"
    N = 2 if ctx.tier == "quick" else 3

    def one(text, tag, nontriv):
        ctx.evaluations += 1
        ctx.count("suite:" + tag)
        io = impl_parse(text)
        ctx.count("outcome:" + io[:1])
        if nontriv:
            ctx.nontriv(text)
        su.corr(text, io, tag=tag)
        bad = classify(io, text=text)
        if bad:
            su.violation(text, bad, {"observed": io[:300]})
    for pre in PREFIXES:
        for n in range(1, N + 1):
            for t in itertools.product(ALPHA, repeat=n):
                one(pre + " ".join(t), "exhaustive-short", n >= 2)
    # deeper exhaustive enumeration over small alphabets chosen per context (specifiers in struct bodies, operands of sizeof,
    # sub-statement positions, file scope): every sequence of up to 4 (thorough: 5) tokens
    DEEP = [([("struct S { ", " } ;"), ("struct S { ", " ; } ;")], ["_Atomic", "(", ")", "int", ";", "T", "*", ":", "3", "const", "struct U", "_Alignas", ","]),
            ([("int x = sizeof ", " ;"), ("int x = sizeof ( ", " ) ;"), ("void f ( void ) { x = ( ", " ) y ; }")],
             ["(", ")", "_Alignas", "_Atomic", "int", "8", "*", "x", "const", "[", "]", "{", "}"]),
            ([("void f ( void ) { if ( x ) ", " }"), ("void f ( void ) { while ( x ) _Static_assert ( ", " ; }")],
             ["_Static_assert", "(", ")", "1", ",", "\"a\"", ";", "x", "else", "{", "}", "int", "T :"]),
            ([("typedef int T ; ", ""), ("typedef int T ; ", " ;")], ["_Atomic", "(", ")", "int", ";", "T", "*", "typedef", "x", ",", "[", "]", "="]),
            ([("enum E { ", " } ;"), ("typedef enum { ", " } T ;"), ("void f ( void ) { x = sizeof ( enum { ", " } ) ; }")], ["A", "=", ",", "1", "-", "(", ")", "B", "}", "{", "T", "sizeof", "int"]),
            ([("int a [ ] = { ", " } ;"), ("struct S s = { ", " } ;")], ["[", "]", "1", "=", ".", "m", ",", "{", "}", "x", "(", ")", "\"s\""]),
            ([("void f ( ", " ) ;"), ("int f ( a , b ) ", " { }")], ["int", "T", "a", ",", "...", "*", "(", ")", "[", "]", "void", "register", ";"])]
    DL = 4 if ctx.tier == "quick" else 5
    for ctxs_, alpha in DEEP:
        for pre, suf in ctxs_:
            for n in range(0, DL + 1):
                for t in itertools.product(alpha, repeat=n):
                    one(pre + " ".join(t) + suf, "deep-small-alphabet", True)
    for text, _valid in ZOO:
        one(text, "zoo", True)
        ztoks = text.split(" ")
        for cut in range(1, len(ztoks)):
            one(" ".join(ztoks[:cut]), "zoo-truncated", True)       # the input ends at every point
        toks_z = text.split(" ")
        for _ in range(8):
            m = toks_z
            for _ in range(ctx.rng.randint(1, 2)):
                m = mutate(m, ctx.rng)
            one(" ".join(m), "zoo-mutants", True)
    # every literal spelling in every position where the grammar takes a constant expression
    for ctxt in LIT_CONTEXTS:
        for lit in LITERALS:
            one(ctxt.replace("@", lit), "literal-contexts", True)
    nprog = 300 if ctx.tier == "quick" else 4000
    for g, toks, exp in gen_cases(ctx, nprog):
        sp = [t[0] + ("\n" if t[2] == "pragma" else "") for t in toks]
        for _ in range(6):
            m = sp
            for _ in range(ctx.rng.randint(1, 3)):
                m = mutate(m, ctx.rng)
            one(" ".join(m), "mutants", True)
    from lexcorr import random_string
    for _ in range(3000 if ctx.tier == "quick" else 50000):
        one(random_string(ctx.rng, 30), "noise", False)
    ctx.sample({"suite": "exhaustive-short", "text": "typedef int T; void f(void){ T ( x"})
    ctx.sample({"suite": "mutants", "text": "int f ( int a ) { return a + ; }"})
    su.finish()
