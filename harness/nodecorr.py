"""Generic AST nodes: value descriptions, encoders for the model, implementation
runners (children/iter/show/repr/visit) and the direct oracles of C14/C15.

The specification side (cfg grammar: bare = attribute, * = child, ** = child
sequence) is parsed here independently of _ast_gen.py.
"""
import io, itertools
from lib import *


def parse_cfg():
    out = []
    for line in open(os.path.join(REPO, "pycparser", "_c_ast.cfg")):
        line = line.strip()
        if not line or line.startswith("#"):
            continue
        name, rest = line.split(":", 1)
        body = rest[rest.index("[") + 1:rest.index("]")]
        ents = [e.strip() for e in body.split(",")] if body.strip() else []
        out.append((name.strip(), [(e.rstrip("*"), "seq" if e.endswith("**") else "child" if e.endswith("*") else "attr") for e in ents]))
    return out


def enc_value(v, cidx):
    """value description -> list of ints for the model driver"""
    t = v[0]
    if t == "none":
        return [0]
    if t == "str":
        return [1, len(v[1])] + [ord(c) for c in v[1]]
    if t == "list":
        out = [2, len(v[1])]
        for e in v[1]:
            out += enc_value(e, cidx)
        return out
    if t == "node":
        _, cname, fields, coord = v
        out = [3, cidx[cname], len(fields)]
        for f in fields:
            out += enc_value(f, cidx)
        if coord is None:
            out.append(0)
        else:
            out += [1, len(coord)] + [ord(c) for c in coord]
        return out
    raise ValueError(t)


class CoordStr:
    """stand-in coordinate whose str() is fixed (the model sees only the printed form)"""
    def __init__(self, s):
        self.s = s
    def __str__(self):
        return self.s
    def __eq__(self, o):
        return isinstance(o, CoordStr) and o.s == self.s
    def __hash__(self):
        return hash(self.s)


def to_py(v, c_ast):
    t = v[0]
    if t == "none":
        return None
    if t == "str":
        return v[1]
    if t == "list":
        return [to_py(e, c_ast) for e in v[1]]
    _, cname, fields, coord = v
    cls = getattr(c_ast, cname)
    args = [to_py(f, c_ast) for f in fields]
    return cls(*args, coord=(None if coord is None else CoordStr(coord)))


def from_py(obj):
    """real node -> value description, walking __slots__ (not children(), which is under test)"""
    if obj is None:
        return ("none",)
    if isinstance(obj, str):
        return ("str", obj)
    if isinstance(obj, list):
        return ("list", [from_py(e) for e in obj])
    slots = [s for s in type(obj).__slots__ if s not in ("coord", "__weakref__")]
    co = getattr(obj, "coord", None)
    return ("node", type(obj).__name__, [from_py(getattr(obj, s)) for s in slots], None if co is None else str(co))


# ---- implementation runners ------------------------------------------------------------
def impl_children(node):
    return RS.join(US.join([n, repr(c)]) for n, c in node.children())


def impl_iter(node):
    return RS.join(repr(c) for c in node)


def impl_show(node, a, b, c, d):
    buf = io.StringIO()
    node.show(buf, attrnames=a, showemptyattrs=b, nodenames=c, showcoord=d)
    return buf.getvalue()


def impl_visit(node, handlers, c_ast, mode=0):
    """handlers: {classname: 1 (visit_X, no recursion) | 2 (visit_X calling NodeVisitor.generic_visit)}.
    Events: (class, "1") for an intercepting visit_X call, (class, "0") for a generic visit.
    mode 0: one visitor class, one fresh instance.
    mode 1: a base visitor class A (no visit_X of its own, or half of them) is used first on the same tree, by two instances; the
            events reported are those of an instance of the derived class B(A) that defines / overrides the handlers - what a
            visitor does must depend on its own class only, not on which other visitors ran before.
    mode 2: the same instance visits the tree twice; the second traversal is reported.
    mode 3: the visit_X methods REMOVE the node they are given from the list that holds it (a visitor that edits the tree while
            walking it) before doing their work; every child that was there when its parent's traversal began is still visited once.
    mode 4: the visitor class also has methods called visit_Node and visit_object: no node has such a class, they are never called.
    mode 5: every visit_X (and the overriding generic_visit) RETURNS a value: return values of handlers do not steer the traversal.
    mode 6: the handlers are attributes of the visitor INSTANCE (bound at run time), not of its class.
    mode 7: the handlers are staticmethods / classmethods of the visitor class (alternating)."""
    events = []

    def mk(kind):
        def visit_X(self, n):
            events.append((type(n).__name__, "1"))
            if kind == 2:
                c_ast.NodeVisitor.generic_visit(self, n)
        return visit_X

    def generic_visit(self, n):
        events.append((type(n).__name__, "0"))
        c_ast.NodeVisitor.generic_visit(self, n)
    items = list(handlers.items())
    if mode == 3:
        holder = {}

        def index(n):
            for s_ in type(n).__slots__:
                v = getattr(n, s_, None) if s_ not in ("coord", "__weakref__") else None
                if isinstance(v, list):
                    for e in v:
                        if isinstance(e, c_ast.Node):
                            holder[id(e)] = v
            for _nm, ch in n.children():
                index(ch)
        index(node)

        def mk3(kind):
            def visit_X(self, n):
                lst = holder.get(id(n))
                if lst is not None and n in lst:
                    lst.remove(n)
                events.append((type(n).__name__, "1"))
                if kind == 2:
                    c_ast.NodeVisitor.generic_visit(self, n)
            return visit_X
        ns = {"visit_" + c: mk3(k) for c, k in items}
        ns["generic_visit"] = generic_visit
        type("V3", (c_ast.NodeVisitor,), ns)().visit(node)
        return RS.join(US.join(e) for e in events)
    if mode == 5:
        def mk5(kind):
            def visit_X(self, n):
                events.append((type(n).__name__, "1"))
                if kind == 2:
                    c_ast.NodeVisitor.generic_visit(self, n)
                return ("handled", type(n).__name__)
            return visit_X

        def generic5(self, n):
            events.append((type(n).__name__, "0"))
            c_ast.NodeVisitor.generic_visit(self, n)
            return 1
        ns = {"visit_" + c: mk5(k) for c, k in items}
        ns["generic_visit"] = generic5
        type("V5", (c_ast.NodeVisitor,), ns)().visit(node)
        return RS.join(US.join(e) for e in events)
    if mode in (6, 7):
        V = type("V67", (c_ast.NodeVisitor,), {"generic_visit": generic_visit})
        v = V()

        def mk6(kind):
            def h(n):
                events.append((type(n).__name__, "1"))
                if kind == 2:
                    c_ast.NodeVisitor.generic_visit(v, n)
            return h
        for i_, (c, k) in enumerate(items):
            if mode == 6:
                setattr(v, "visit_" + c, mk6(k))
            elif i_ % 2 == 0:
                setattr(V, "visit_" + c, staticmethod(mk6(k)))
            else:
                setattr(V, "visit_" + c, classmethod((lambda f_: (lambda cls, n: f_(n)))(mk6(k))))
        v.visit(node)
        return RS.join(US.join(e) for e in events)
    if mode == 4:
        def bogus(self, n):
            events.append((type(n).__name__, "!"))
        ns = {"visit_" + c: mk(k) for c, k in items}
        ns.update({"generic_visit": generic_visit, "visit_Node": bogus, "visit_object": bogus})
        type("V4", (c_ast.NodeVisitor,), ns)().visit(node)
        return RS.join(US.join(e) for e in events)
    if mode == 1:
        half = items[: len(items) // 2]
        nsA = {"visit_" + c: mk(3 - k) for c, k in half}      # A handles half of the classes, the other way round
        nsA["generic_visit"] = generic_visit
        A = type("A", (c_ast.NodeVisitor,), nsA)
        A().visit(node)
        A().visit(node)
        B = type("B", (A,), {"visit_" + c: mk(k) for c, k in items})
        del events[:]
        B().visit(node)
    else:
        ns = {"visit_" + c: mk(k) for c, k in items}
        ns["generic_visit"] = generic_visit
        V = type("V", (c_ast.NodeVisitor,), ns)
        v = V()
        v.visit(node)
        if mode == 2:
            del events[:]
            v.visit(node)
    return RS.join(US.join(e) for e in events)


# ---- generators -----------------------------------------------------------------------------
NASTY_STRINGS = ["x" * 200, "long identifier or pragma text " * 8, "", "a", "it's", 'say "hi"', "both ' and \"", "back\\slash", "tab\there", "nl\nhere", "cr\rhere", "\x00\x01\x1f\x7f",
                 "é", "中文", "\U0001f600", "\xa0\xad", " ", "'", '"', "\\", "\\n", "'\\''", '"\\""', "\udc80", "͸"]


def leaf(rng, i=0):
    k = rng.randint(0, 3)
    if k == 0:
        return ("node", "ID", [("str", f"x{i}")], None)
    if k == 1:
        return ("node", "Constant", [("str", "int"), ("str", str(i))], f"f.c:{i+1}:{i+2}")
    if k == 2:
        return ("node", "Break", [], None)
    return ("node", "Constant", [("str", "string"), ("str", '"' + rng.choice(NASTY_STRINGS) + '"')], None)


def attr_value(rng, name):
    r = rng.random()
    if name in ("quals", "storage", "funcspec", "names", "dim_quals", "align"):
        if r < 0.3:
            return ("list", [])
        if r < 0.4:
            return ("none",)
        return ("list", [("str", rng.choice(["const", "volatile", "static", "int", "unsigned", "it's", "a\nb"])) for _ in range(rng.randint(1, 3))])
    if r < 0.15:
        return ("none",)
    if r < 0.25:
        return ("str", "")
    if r < 0.6:
        return ("str", rng.choice(NASTY_STRINGS))
    return ("str", rng.choice(["x", "+", "int", "p++", "sizeof", "->"]))


def class_sweep(cfg, rng):
    """every class x every subset of optional children absent x sequence shapes"""
    for cname, ents in cfg:
        childs = [i for i, (_, k) in enumerate(ents) if k == "child"]
        seqs = [i for i, (_, k) in enumerate(ents) if k == "seq"]
        for absent in itertools.chain.from_iterable(itertools.combinations(childs, r) for r in range(len(childs) + 1)):
            for shapes in itertools.product([None, 0, 1, 3], repeat=len(seqs)):
                fields = []
                si = 0
                for i, (ename, kind) in enumerate(ents):
                    if kind == "attr":
                        fields.append(attr_value(rng, ename))
                    elif kind == "child":
                        fields.append(("none",) if i in absent else leaf(rng, i))
                    else:
                        sh = shapes[si]
                        si += 1
                        fields.append(("none",) if sh is None else ("list", [leaf(rng, j) for j in range(sh)]))
                coord = rng.choice([None, "file.c:3:7", "a b.h:10"])
                yield ("node", cname, fields, coord), (len(absent) > 0 or any(s != 1 for s in shapes))


def random_tree(cfg, rng, depth):
    cname, ents = rng.choice(cfg)
    fields = []
    for ename, kind in ents:
        if kind == "attr":
            fields.append(attr_value(rng, ename))
        elif kind == "child":
            if rng.random() < 0.25:
                fields.append(("none",))
            elif depth <= 0:
                fields.append(leaf(rng))
            else:
                fields.append(random_tree(cfg, rng, depth - 1))
        else:
            r = rng.random()
            if r < 0.15:
                fields.append(("none",))
            elif r < 0.3:
                fields.append(("list", []))
            else:
                n = rng.randint(1, 3)
                fields.append(("list", [random_tree(cfg, rng, depth - 1) if depth > 0 else leaf(rng, j) for j in range(n)]))
    return ("node", cname, fields, rng.choice([None, None, "t.c:1:2"]))


def count_nodes(v, cfgd):
    """number of nodes reachable through child / sequence fields (spec-side size)"""
    if v[0] != "node":
        return 0
    n = 1
    for (ename, kind), f in zip(cfgd[v[1]], v[2]):
        if kind == "child":
            n += count_nodes(f, cfgd)
        elif kind == "seq" and f[0] == "list":
            n += sum(count_nodes(e, cfgd) for e in f[1])
    return n
