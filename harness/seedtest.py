"""Confirm a seeded change in its scratch worktree, run checks against it in /repo, keep it under /verif/seeded.

usage: seedtest.py <prop> <n> [checks...]     (source: /tmp/seed/<prop>/out/<n>/)
"""
import json, os, shutil, subprocess, sys, time
VERIF = os.path.dirname(os.path.dirname(os.path.abspath(__file__)))
REPO = os.environ.get("VERIF_REPO", "/repo")

if sys.argv[1] in ("--r2", "--r3", "--r4", "--r5", "--r6", "--r7", "--r8", "--r9"):          # round 2 layout: /tmp/seed2/<group>/out/<i>/{prop.txt,patch.diff,demo.py,notes.txt}
    grp, n = sys.argv[2], sys.argv[3]
    wt = {"--r2": f"/tmp/seed2/{grp}", "--r3": f"/tmp/seed3/{grp}", "--r4": f"/tmp/seed4/{grp}", "--r5": f"/tmp/seed5/{grp}", "--r6": f"/tmp/seed6/{grp}", "--r7": f"/tmp/seed7/{grp}", "--r8": f"/tmp/seed8/{grp}", "--r9": f"/tmp/seed9/{grp}"}[sys.argv[1]]
    src = f"{wt}/out/{n}"
    prop = open(f"{src}/prop.txt").read().split()[0].strip(":")
    checks = sys.argv[4:] or [prop]
    tag = f"{prop}-{sys.argv[1][2:]}{grp}{n}"
else:
    prop, n = sys.argv[1], sys.argv[2]
    checks = sys.argv[3:] or [prop]
    wt = f"/tmp/seed/{prop}"
    src = f"{wt}/out/{n}"
    tag = f"{prop}-{n}"
patch = f"{src}/patch.diff"


def sh(cmd, cwd=None, timeout=3000):
    p = subprocess.run(cmd, shell=True, cwd=cwd, capture_output=True, text=True, timeout=timeout)
    return p.returncode, (p.stdout + p.stderr)

meta = {"property": prop, "source": "independent sub-agent given only the property text", "what_ran": []}
# 1. confirm in the scratch worktree
sh("git checkout -- . && git clean -fdq -e out -e PROPS.txt", wt)
rc0, out0 = sh(f"PYTHONPATH={wt} /venv/bin/python out/{n}/demo.py", wt)
rc, out = sh(f"git apply {patch}", wt)
if rc != 0:
    print("patch does not apply:", out); sys.exit(2)
rc1, out1 = sh("/venv/bin/python -m pytest -q -p no:cacheprovider 2>&1 | tail -1", wt)
rc2, out2 = sh(f"PYTHONPATH={wt} /venv/bin/python out/{n}/demo.py", wt)
sh("git checkout -- . && git clean -fdq -e out -e PROPS.txt", wt)
meta["confirmed"] = {"demo_without_change_exit": rc0, "tests_with_change": out1.strip(), "demo_with_change_exit": rc2}
ok = rc0 == 0 and "135 passed" in out1 and rc2 != 0
print("confirmed" if ok else "NOT CONFIRMED", meta["confirmed"])
if not ok:
    sys.exit(3)
# 2. run the checks against /repo with the change applied
sh(f"git -C {REPO} checkout -- . && git -C {REPO} clean -fdq")
rc, out = sh(f"git -C {REPO} apply {patch}")
if rc != 0:
    print("patch does not apply to /repo:", out); sys.exit(2)
results = {}
try:
    for c in checks:
        t0 = time.time()
        rc, out = sh(f"./check {c} --tier quick", VERIF, timeout=3000)
        lines = [l for l in out.splitlines() if l.startswith("VIOLATION") or l.startswith("[")]
        results[c] = {"exit": rc, "violation_lines": [l for l in lines if l.startswith("VIOLATION")][:3], "seconds": round(time.time() - t0)}
        print(c, "exit", rc, lines[-1] if lines else out[-300:])
        # keep one replay summary
        for l in lines:
            if l.startswith("VIOLATION"):
                path = l.split("replay=")[1].split()[0]
                try:
                    d = json.load(open(path))
                    results[c]["replay_excerpt"] = {k: (str(v)[:300]) for k, v in d.items() if k in ("input", "problem", "broken", "suite")}
                except Exception:
                    pass
                break
finally:
    sh(f"git -C {REPO} checkout -- . && git -C {REPO} clean -fdq")
    for t in ("tr_lexer", "tr_parser_tables", "tr_generator_tables", "tr_ast", "tr_state", "tr_litspec"):
        sh(f"/venv/bin/python {VERIF}/translator/{t}.py {VERIF}/coq/gen")      # gen/ follows the restored tree again
meta["checks"] = results
meta["detected_by"] = [c for c, r in results.items() if r["exit"] == 1]
meta["what_ran"] = [f"./check {c} --tier quick (with the patch applied to /repo, undone afterwards)" for c in checks]
dst = f"{VERIF}/seeded/{tag}"
os.makedirs(dst, exist_ok=True)
for f in os.listdir(src):
    if f != "prop.txt" and os.path.isfile(f"{src}/{f}"):
        shutil.copy(f"{src}/{f}", dst)
meta["needs"] = open(f"{src}/notes.txt").read()[:1500] if os.path.exists(f"{src}/notes.txt") else ""
json.dump(meta, open(f"{dst}/meta.json", "w"), indent=1)
print("detected by:", meta["detected_by"])
