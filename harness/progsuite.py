"""Shared runner for the parser properties: generated programs x layouts,
model/implementation correspondence on whole parses (with coordinates and the
token-consumption counter), and the per-property direct oracles."""
import re
from lib import *
from parsecorr import impl_parse, model_req, show_ast
from nodecorr import from_py
import cgen
import corpus

LOC_RE = re.compile(r"^(.*?):(\d+)(?::(\d+))?: ", re.S)


def parse_impl_ast(text, filename="f.c"):
    from pycparser import c_parser
    return c_parser.CParser().parse(text, filename)


def check_coords(expected, actual, pos, path="ast"):
    """C11 oracle: nodes whose coordinate must be the token that spells / starts them."""
    if expected[0] == "list":
        for i, (a, b) in enumerate(zip(expected[1], actual if isinstance(actual, list) else [])):
            d = check_coords(a, b, pos, f"{path}[{i}]")
            if d:
                return d
        return None
    if expected[0] != "node":
        return None
    if expected[3] is not None:
        f, l, c = pos[expected[3]]
        co = actual.coord
        if co is None:
            return f"{path} ({expected[1]}): no coordinate"
        if (co.line, co.column) != (l, c):
            return f"{path} ({expected[1]}): coordinate {co.file}:{co.line}:{co.column}, its token is at {f}:{l}:{c}"
    slots = [s for s in type(actual).__slots__ if s not in ("coord", "__weakref__")]
    for s, e in zip(slots, expected[2]):
        d = check_coords(e, getattr(actual, s), pos, f"{path}.{s}")
        if d:
            return d
    return None


def all_coords(node, acc):
    if node is None or isinstance(node, str):
        return
    if isinstance(node, list):
        for e in node:
            all_coords(e, acc)
        return
    acc.append((type(node).__name__, node.coord))
    for s in type(node).__slots__:
        if s not in ("coord", "__weakref__"):
            all_coords(getattr(node, s), acc)


MUST_HAVE_COORD = {"Decl", "Typedef", "FuncDef", "ID", "Constant", "BinaryOp", "UnaryOp", "Assignment", "TernaryOp", "Cast",
                   "ArrayRef", "StructRef", "FuncCall", "If", "While", "DoWhile", "For", "Switch", "Case", "Default", "Label", "Goto",
                   "Break", "Continue", "Return", "Compound", "EmptyStatement"}


class Suite:
    def __init__(self, ctx, b, broken, prop):
        self.ctx, self.b, self.broken, self.prop = ctx, b, broken, prop
        self.model = Model() if b.driver_ok else None
        self.pending = []       # (text, filename, impl_outcome, tag)
        self.disagreements = []

    def corr(self, text, impl_outcome=None, filename="f.c", tag=""):
        """queue a whole-parse correspondence case"""
        if self.model is None:
            return
        if impl_outcome is None:
            impl_outcome = impl_parse(text, filename)
        self.pending.append((text, filename, impl_outcome, tag))
        if len(self.pending) >= 3000:
            self.flush()

    def flush(self):
        if not self.pending or self.model is None:
            self.pending = []
            return
        outs = self.model.batch([model_req(t, f) for t, f, _, _ in self.pending])
        for (t, f, io, tag), mo in zip(self.pending, outs):
            self.ctx.traces += 1
            if io != mo and "R" not in (io, mo) and io != "TIMEOUT":
                self.disagreements.append((tag, t, io, mo))
        self.pending = []

    def finish(self):
        self.flush()
        if self.model:
            self.model.close()
        if self.disagreements:
            tag, t, io, mo = min(self.disagreements, key=lambda d: len(d[1]))
            self.broken.append({"kind": "correspondence", "name": f"whole-parser model vs CParser.parse ({tag})",
                                "input": t, "implementation": io[:3000], "model": mo[:3000], "count": len(self.disagreements)})

    def violation(self, text, problem, extra=None, filename="f.c"):
        kf = match_known(self.ctx, text, problem)
        if kf:
            return
        p = {"property": self.prop, "input": text, "filename": filename, "problem": problem,
             "replay": f"./check {self.prop} --replay <this file>"}
        if extra:
            p.update(extra)
        if len(self.ctx.violations) < 8:
            self.ctx.violation(p)


def match_known(ctx, text, problem):
    """A violation is suppressed only if its input is one of the listed finding inputs
    or falls in a finding's formally stated class (a decidable predicate on the input)."""
    for f in ctx.findings:
        if f.get("input") is not None and f["input"] == text:
            ctx.known(f["id"], f["what"])
            return f
        cls = f.get("class")
        if cls and cls in KNOWN_CLASSES and KNOWN_CLASSES[cls](text, problem):
            ctx.known(f["id"], f["what"])
            return f
    return None


KNOWN_CLASSES = {}


def _atomic_multi(text, problem):
    """the declaration uses an _Atomic(...) type specifier and has more than one declarator"""
    m = re.search(r"_Atomic\s*\(", text)
    if not m:
        return False
    # declarator list after the closing parenthesis of the specifier, up to the ';'
    depth, i = 0, m.end() - 1
    while i < len(text):
        if text[i] == "(":
            depth += 1
        elif text[i] == ")":
            depth -= 1
            if depth == 0:
                break
        i += 1
    rest = text[i + 1:].split(";")[0]
    d = 0
    for ch in rest:
        if ch in "([{":
            d += 1
        elif ch in ")]}":
            d -= 1
        elif ch == "," and d == 0:
            return True
    return False


KNOWN_CLASSES["atomic_specifier_multi_declarator"] = _atomic_multi


def _adjacent_prefixed_strings(text, problem):
    """two adjacent string literals of which the second has a 2-character prefix (u8) - the only prefixed
    concatenation that goes wrong: value[2:] drops `u8` but the first literal's closing quote stays"""
    return re.search(r'(?:u8|u|U|L)"(?:[^"\\\n]|\\.)*"\s*u8"', text) is not None


KNOWN_CLASSES["adjacent_prefixed_strings"] = _adjacent_prefixed_strings


def _pragma_before_switch_body(text, problem):
    """pragma line(s) between the `)` of a switch head and the `{` of its body"""
    return "switch" in text and re.search(r"\)\s*(?:#pragma[^\n]*\n\s*|_Pragma\s*\([^)]*\)\s*)+\{", text) is not None


KNOWN_CLASSES["pragma_before_switch_body"] = _pragma_before_switch_body


def known_class(name):
    def deco(fn):
        KNOWN_CLASSES[name] = fn
        return fn
    return deco


def _walk(n):
    if n is None or isinstance(n, str):
        return
    if isinstance(n, list):
        for e in n:
            yield from _walk(e)
        return
    yield n
    for s in type(n).__slots__:
        if s not in ("coord", "__weakref__"):
            yield from _walk(getattr(n, s))


def ast_class(pred):
    """known-finding class decided on the implementation's AST of the input"""
    def f(text, problem):
        try:
            ast = parse_impl_ast(text)
        except Exception:
            return False
        return any(pred(n) for n in _walk(ast))
    return f


def _cn(n):
    return type(n).__name__


KNOWN_CLASSES["tagonly_decl_with_quals"] = ast_class(lambda n: _cn(n) == "Decl" and n.name is None and n.quals and _cn(n.type) in ("Struct", "Union", "Enum"))
KNOWN_CLASSES["int_const_member"] = ast_class(lambda n: _cn(n) == "StructRef" and n.type == "." and _cn(n.name) == "Constant" and "int" in n.name.type)
# only the shape that fails: a later declarator that has pointer / array / function derivations (they are dropped)
KNOWN_CLASSES["forinit_multi"] = ast_class(lambda n: _cn(n) == "For" and _cn(n.init) == "DeclList" and any(_cn(d.type) != "TypeDecl" for d in n.init.decls[1:]))
KNOWN_CLASSES["static_assert_low_prec"] = ast_class(lambda n: _cn(n) == "StaticAssert" and _cn(n.cond) == "Assignment")
KNOWN_CLASSES["assign_lvalue_low_prec"] = ast_class(lambda n: _cn(n) == "Assignment" and _cn(n.lvalue) in ("ExprList", "TernaryOp", "Assignment"))
KNOWN_CLASSES["multi_alignas"] = ast_class(lambda n: _cn(n) == "Decl" and isinstance(n.align, list) and len(n.align) > 1)
KNOWN_CLASSES["qual_next_to_atomic_pointer"] = ast_class(
    lambda n: _cn(n) in ("Decl", "Typedef", "Typename") and n.quals and _cn(n.type) == "PtrDecl" and "_Atomic" in (n.type.quals or []) and any(q in (n.type.quals or []) for q in n.quals))
def _base_td(n):
    t = n.type
    for _ in range(64):
        if t is None or _cn(t) == "TypeDecl":
            return t
        t = getattr(t, "type", None)
    return None


KNOWN_CLASSES["qual_inside_atomic_pointer_typename"] = ast_class(
    lambda n: _cn(n) in ("Decl", "Typedef", "Typename") and _base_td(n) is not None
    and "_Atomic" in ((n.type.quals or []) if _cn(n.type) == "PtrDecl" else (_base_td(n).quals or []))
    and any(q not in (n.quals or []) for q in (_base_td(n).quals or []) if q != "_Atomic"))
KNOWN_CLASSES["pragma_operator"] = ast_class(lambda n: _cn(n) == "Pragma" and not isinstance(n.string, str))


def replay_known(ctx, oracle):
    """Replay every listed finding of this property on the implementation: print KNOWN-FINDING if it
    still fails; a finding that no longer fails is simply not reported."""
    for f in ctx.findings:
        if f.get("input") is None:
            continue
        try:
            bad = oracle(f["input"])
        except Exception as e:
            bad = f"oracle exception {e!r}"
        if bad:
            ctx.known(f["id"], f["what"])


def gen_cases(ctx, n, size=(1, 3), depth=2, modes=("single", "random", "lines")):
    for _ in range(n):
        g = cgen.Gen(ctx.rng)
        toks, exp = g.program(size=ctx.rng.randint(*size), depth=depth)
        yield g, toks, exp


def replay(ctx, rp, b):
    text = rp.get("input")
    if text is None and rp.get("broken"):
        text = rp["broken"][0].get("input")
    if text is None:
        log(json.dumps(rp, indent=1)[:4000])
        return 0
    fn = rp.get("filename", "f.c")
    io = impl_parse(text, fn)
    log("input:", repr(text))
    log("implementation:", repr(io[:2000]))
    if b.driver_ok:
        m = Model()
        log("model:         ", repr(m.raw(model_req(text, fn))[:2000]))
        m.close()
    return 0


def pristine_outcomes(items):
    """[(text, filename)] -> outcomes, each computed in a fresh interpreter (harness/pristine.py)"""
    import subprocess, sys
    if not items:
        return []
    p = subprocess.run([sys.executable, os.path.join(os.path.dirname(os.path.abspath(__file__)), "pristine.py")],
                       input=json.dumps([[t, f] for t, f in items]), capture_output=True, text=True, timeout=1800,
                       env=dict(os.environ, PYTHONHASHSEED="0"))
    if p.returncode != 0:
        raise RuntimeError("pristine.py failed: " + p.stderr[-800:])
    return json.loads(p.stdout)


# Hand-written programs for constructs the grammar-directed generator produces rarely or never, plus the inputs of every
# defect that was repaired by a "fix:" commit (a fixed defect that returns is reported again).  (text, is_valid_C11)
ZOO = [
    # round 9, parser group: enums / structs defined inside parameter lists followed by declarations reusing their names, brace constructs
    # inside parenthesised declarators, directive lines with empty file names, decimal constants beyond 32 bits, a for-init name
    # shadowing a same-named parameter that hides a typedef
    ('void g(enum { A, B } x); typedef int A; A v; void h(struct S { int m; } *p, enum E { P, Q } e); typedef int P;', True),
    ('int (*pick(struct opt { int a; } *o))(void); int (*tab[sizeof(struct { int a; })])(int); void (*sel(enum { LO, HI } k))(int);', True),
    ('#line 5 ""\nint x;\n# 1 ""\nint y;\n# 3 "" 1\nint z;\n', True),
    ('long a = 2147483648; long b = 4294967296; int c = 2147483647; unsigned long d = 18446744073709551615; long e = 9223372036854775807;', True),
    ('typedef int T; void f(int T, int n){ for (int T = 0; T < n; T++) n--; T * n; } void g(void){ int T = 1; for (int T = 0; T < 3; T++) ; T * 2; { for (int T = 0; ; ) break; } T * 3; }', True),
    # round 9 (first pass misses): unbraced switch bodies with several labels, K&R definitions whose declaration list omits parameters,
    # qualified type names without declarator in compound literals / sizeof / casts / _Alignof, very long integer constants of every base
    ('void f(int x){ switch (x) case 1: case 2: x++; switch (x) default: case 3: ; switch (x) case 4: switch (x) case 5: case 6: x--; }', True),
    ('int scan(buf, len, flags) char *buf; { return 0; } int two(a, b, c, d) int c; char a; { return c; } int none(p, q) { return 0; }', True),
    ('struct point { int x; int y; }; void f(void){ p = &(const struct point){0, 0}; n = sizeof(const int); y = (volatile int) z; w = (const int){3}; m = _Alignof(const long); g((const char){1}); }', True),
    ('unsigned long long big = 0777777777777777777777; unsigned long long b2 = 01777777777777777777777ULL; int a[3] = { 0000000000000000000007, 0x00000000000000000001F, 0b0000000000000000000011 }; long d = 18446744073709551615;', True),
    # round 8 (first pass misses): _Atomic(type-name) over qualified pointee types, tagged struct / union definitions and forward
    # declarations as members without declarator, function specifiers on functions declared through a typedef of function type,
    # declarations after case labels (C99 mixed declarations), `long double _Complex` in every word order, label runs where every
    # label has exactly one statement
    ('_Atomic(const char *) p; _Atomic(int * const *) q; _Atomic(volatile int *) r; void f(_Atomic(const char *) a); int n = sizeof(_Atomic(const int *));', True),
    ('struct outer { struct inner { int a; }; int b; struct fwd; union U { int x; float y; }; struct inner i; };', True),
    ('typedef int handler_t(int); static inline handler_t on_int; _Noreturn handler_t die; typedef void vf(void); inline vf g1, g2;', True),
    ('void f(int x){ switch (x) { case 1: x++; int y = x; y *= 2; break; case 2: ; int z; z = 1; default: { int w; } } }', True),
    ('long double _Complex z; double long _Complex w; _Complex long double v; _Complex double long u; void f(void){ x = (long double _Complex) y; n = sizeof(long double _Complex); } long double _Complex g(double _Complex long a);', True),
    ('void f(int a){ switch (a) { case 1: case 2: return; case 3: a++; } switch (a) { case 1: case 2: case 3: break; default: case 4: a--; } }', True),
    # round 8: static assertions with wide / prefixed messages (repaired by 6cdcb92), in every position a static assertion can take
    ('_Static_assert(1, L"x"); _Static_assert(sizeof(int) == 4, u8"m" u8"n"); void f(void){ _Static_assert(1, U"a"); if (x) _Static_assert(1, u"b"); _Static_assert(2, "p" "q"); }', True),
    ('int (g(int a)) { return a; } int (*h(int a))(int b) { return 0; }', True),
    # round 7: adjacent prefixed literals of every class, offsetof designators with identifier subscripts, a function's own name
    # re-declared in its outermost block, suffixes after postfix ++, comma in the middle of ?:, member runs with mixed operators
    ('char *a = u8"ab" u8"cd"; char *b = u8"a" u8"b" u8"c"; int *c = L"a" L"b" L"c"; short *d = u"x" u"y"; int *e = U"x" U"y" U"z"; char *f = "p" "q" "r";', True),
    ('enum { N = 1 }; void f(void){ x = offsetof(struct S, p[N].q); y = offsetof(struct S, p[1].q[N]); z = offsetof(struct S, a.b[i][j].c); w = offsetof(struct S, m[N + 1]); }', True),
    ('int count(int n) { typedef unsigned long count; count total = 0; return (int) total + n; }', True),
    ('int fo(void) { int fo = 1; return fo; } int fp(int fp) { return fp; } int fq(void) { { typedef char fq; fq c = 0; return c; } }', True),
    ('void f(struct S *p, struct S **q){ x = p++->n; y = q++[0][1].n; z = (*q)--->n; w = p->in.x + s.pin->x + p->a.b->c.d; }', True),
    ('void f(void){ r = x ? g(y), y + 1 : 2; t = a ? b, c, d : e ? f, g : h; }', True),
    ('static inline int sf(int a){ return a; } extern _Noreturn void die(int); inline static _Noreturn void d2(void){ for(;;); } _Noreturn static void d3(void);', True),
    ('void f(int n){ int b = 1;; ; int c;; while (n--) ;; for (int k = n;; k--) { continue; } do continue; while (0); L: ; }', True),
    ('void f(_Atomic(int) a, const _Atomic(struct S) s, _Atomic(int) *p, _Atomic(int) (*g)(void), int b);', True),
    ('int len; void f(void){ typedef unsigned char len; len *p; { int len = 2; len++; } } void g(int len){ { typedef int len; len x; } }', True),

    # _Atomic(type-name) specifier everywhere a type can be written
    ("void f(void){ x = (_Atomic(int)) y; z = sizeof(_Atomic(int *)); w = _Alignof(_Atomic(struct S *)); }", False),
    ("void g(_Atomic(int) *, _Atomic(char) a, const _Atomic(long) * const, _Atomic(int) b[2]);", True),
    ("struct S { _Atomic(int) m; _Atomic(char *) p; }; typedef _Atomic(int) AT; AT v;", True),
    ("_Atomic(int) ga; static _Atomic(unsigned long) gb = 1;", True),
    ("int k = sizeof(_Atomic(int)) + sizeof(const _Atomic(int) *);", True),
    ("void h(void){ _Atomic(int) loc = 0; for (_Atomic(int) i = 0; i < 3; i++) loc += i; }", True),
    ("struct S { _Atomic(int); };", False), ("union U { const _Atomic(int); int y; };", False), ("struct S { int; };", False),
    # alignment specifiers in odd places
    ("int x = sizeof(_Alignas(8));", False), ("void f(void){ x = (_Alignas(4)) y; }", False), ("int x = sizeof(_Alignas(8) int);", False),
    ("struct S { _Alignas(8) int a; _Alignas(double) char b; }; _Alignas(16) static int z;", True),
    # static assertions wherever a statement or declaration can stand
    ("void f(void){ if (x) _Static_assert(1, \"a\"); }", False), ("void f(void){ while (x) _Static_assert(1, \"a\"); }", False),
    ("void f(void){ for (;;) _Static_assert(1,\"a\"); L: _Static_assert(1,\"b\"); }", False),
    ("void f(void){ switch (x) { case 1: _Static_assert(1, \"a\"); default: _Static_assert(2, \"b\"); } }", False),
    ("_Static_assert(sizeof(int) >= 2, \"int\"); void f(void){ _Static_assert(1, \"in block\"); int a; _Static_assert(2, \"after decl\"); }", True),
    # earlier repaired defects
    ("}", False), ("int struct T;", False), ("int f(T enum x", False), ("int x = 'uu';", False), ("const;", False),
    ("void f(){ int a[*p]; }", True), ("void f(void){ x = (int){1} + y; (int){1}; }", True), ("struct S { int : 3; unsigned : 0; };", True),
    ("char *s = u8\"a\" u8\"b\"; char *t = \"a\" \"b\" \"c\";", True),
    # old-style definitions, odd declarators
    ("int f(a, b, c) int a; char *b; double c; { return a; }", True), ("int g(a) register int a; { return a; }", True),
    ("int (*fp(int a))(double) { return 0; }", True), ("void (*signal(int sig, void (*func)(int)))(int);", True),
    ("int a[static 3], b[const 3]; void h(int m[static restrict 2], int n[*], int (*q)[*]);", False),
    ("typedef int T; void f(T T); void g(void){ T T; T = 1; } struct S { T T; };", True),
    ("struct S { unsigned a:1, :3, b:2; int : 0; signed c : 'a'; };", True), ("int static x; long unsigned typedef UL; struct P { int a; } static sp;", True),
    ("enum E { A = -1, B = (-1), C = sizeof(int), D = A ? 1 : 2, F, };", True),
    # statements
    ("void f(void){ if (a) if (b) x; else y; else z; do ; while (0); for (;;) ; switch (x) ; goto L; L: ; }", True),
    ("void f(void){ switch (x) { int tmp; case 1: case 2: a; b; break; default: ; } }", True),
    ("void f(void){\n#pragma omp parallel\n for (;;)\n#pragma omp inner\n x;\n}", True),
    ("void f(void){ return (a, b), c; x = y = z; p = q ? r : s ? t : u; }", True),
    ("void f(void){ a = sizeof p->len; b = sizeof (p)->len; c = sizeof (a)/sizeof (a)[0]; }", True),
    ("void f(void){ x = a - b * c - d; y = a == b * c + d; z = a || b == c && d; w = - -a + +b - ~c; }", True),
    ("void f(void){ x = (a)(b); y = (T)(b); z = (a)[1]; s.m[1].n->o++; f(1)(2); (*fp)(3); }", False),
    ("int a[] = { [2] = 5, [5 ... 7] = 7, 9 }; struct S s = { .a = 1, .in.c = 3, .arr[1] = 2 }, *sp = &(struct S){ .a = 2 };", False),
    ("# 1 \"a.c\"\nint a;\n# 1 \"inc.h\" 1\nint b;\n# 2 \"a.c\" 2\nint c;\n#line 10\nint d;\n# 20\n# 30 \"z.c\"\nint e;", True),
    # round 5: rarely used productions, every literal form, malformed directives, inputs that end early
    ('void f(void){ if (x)\n#pragma a\n#pragma b\n y; else\n#pragma c\n_Pragma("d")\n z; }', True),
    ('void f(void){ while (x)\n#pragma a\n_Pragma("b")\n#pragma c\n y; z; }', True),
    ('void f(void){ for(;;) _Pragma("a") _Pragma("b") x; L:\n#pragma l\n_Pragma("m") y; }', True),
    ('void f(void){ switch (x) { case 1:\n#pragma p\n_Pragma("q") a; default: _Pragma("r")\n#pragma s\n b; } }', True),
    ('void f(void){ do _Pragma("a")\n#pragma b\n x; while (0); if (y) _Pragma("c") z; else w; }', True),
    ('_Pragma("a") _Pragma("b") int x;\n#pragma c\n_Pragma("d")\nint y;\n#pragma\nint z;', True),
    ('struct S {\n#pragma pack\n int a; _Pragma("x") int b;\n#pragma one\n#pragma two\n};', True),
    ('void f(void){\n#pragma first\n#pragma second\n}', True),
    ('void f(void){ a: b: c: x; switch (y) { l1: case 1: l2: case 2: default: l3: z; } goto b; }', True),
    ('void f(void){ switch (x) { case 1: case 2: a; case 3: { b; } default: c; d; } switch (y) { default: switch (z) { case 1: e; } case 4: g; } }', True),
    ('typedef int T; typedef char U; void f(void){ x = (T)(U)(long)y; z = (T)-(U)+w; v = (T*)(U*)t; q = (T)(a)(b); }', True),
    ('void f(void){ a = b += c -= d *= e; a %= b; a <<= 1; a >>= 2; a &= 3; a ^= 4; a |= 5; a /= 6; }', True),
    ('void f(void){ x = (a?b:c)?d:e; y = a?b:c?d:e; z = a?(b,c):d; w = a ? b ? c : d : e; v = (a, b) ? c : d; }', True),
    ('void f(void){ r = (*p).y; s = (**pp).y; t = (*(p+1)).x; u = p->y->z.w; v = (&s)->m; w = a[1][2].b[3]; }', True),
    ('void f(void){ x = a->b, ++a, a--, ~a, !a, a%b, a<<b, a>>b, a<=b, a>=b, a!=b, a^b, a|b, a&&b, a||b, -a, +a, *a, &a, --a, a++; }', True),
    ('void f(void){ x = sizeof a + sizeof(a) * sizeof(int) - sizeof(int *) / sizeof a[0] % sizeof *a; y = _Alignof(int) + _Alignof(char *); }', True),
    ('void f(void){ x = f(), g(1), h(1, 2), (k)(3), (*fp)(), arr[i](j), s.fn(1)(2)[3]; }', True),
    ('void f(void){ switch (c) { case\'a\': return"abc"[0]; } x = sizeof"abc"; y = L\'a\'+u8"s"[0]; }', True),
    ('void f(int n){ int buf[(n++, n*2)]; x = sizeof(int [(n,2)]); int m[n][2*n]; }', True),
    ('void f(void){ x = (int){1} ; p = &(struct S){ .a = 1 }; q = (int[]){1, 2, 3}; r = (const char *[]){"a", "b"}; }', True),
    ('void f(void){ x = offsetof(struct S, a); y = offsetof(struct S, a.b[2].c); z = offsetof(struct S, m[1]); }', True),
    ('struct S { unsigned f:1, c; int a, b:2, :3, d; const int e:4; };', True),
    ('void f(int ()); void g(int (void)); int h = sizeof(char *()); void k(int (*)(), int (*[])(int), int (*(*)(int))[3]); void l(int [], int [3], int [][4]);', True),
    ('typedef unsigned length; struct buffer { char *data; unsigned length; } b = { .length = 0u, .data = 0 }; struct nest { struct buffer length; } n = { .length.length = 1 };', True),
    ('static _Thread_local int x; extern _Thread_local int y; _Thread_local static int z; _Noreturn void die(void); inline static int q(void){ return 0; }', True),
    ('int p(const char *, ...); int q(int a, ...); void r(void); void s(); int (*t)(int, ...);', True),
    ('enum E { A }; enum F { B, }; enum G { C = 1, D = C + 1, }; enum { H } anon; enum E e1, *e2;', True),
    ('struct e {}; union u {}; struct o { struct e in; } v; struct fwd; struct fwd *pf; struct fwd { int k; };', False),
    ('int a, *b, **c, d[2], *e[3], (*f)[4], g(void), *h(void), (*i)(void), (*j[5])(void), (*(*k)(void))[6];', True),
    ('const int ci; int const ic; volatile const int vc; int * const pc; const int * cp; int * const * volatile cpv; restrict int *r;', True),
    ('long long ll; unsigned long long ull; long unsigned int lui; signed char sc; long double ld; short int si; _Bool bb; float _Complex fc;', True),
    ('typedef int T; void f(int T){ if (T) { T = 2; } { int U; } } T after; void g(void){ { int T; { (T)(1); T * y; } } T z; }', True),
    ('typedef int T; void f(void){ { typedef char T; T c; } T i; { int T = 1; T++; } T j; if (1) {} T k; struct { T m; } s = {0}; T l; }', True),
    ('typedef int T; T f(T a, T *b), g(T (*)(T)); T (*h)(T); struct S { T t; T *u; T v[2]; }; T arr[sizeof(T)];', True),
    ('int x = 08;', False),
    ('int x = 09;', False),
    ('int x = 018;', False),
    ('int x = 1٣;', False),
    ('int y = 0b102;', False),
    ('double d = 1e+;', False),
    ('int z = 0x;', False),
    ('int w = 1.2.3;', False),
    ('double d = 0x1p-3 + 0x.8p1 + 0x1.p2f + 0xAp+10L; double e = 1.5f + 1.e3L + .5 + 1e+3 + 1E-2f + 5e3;', True),
    ('int i = 1u + 1ul + 1lu + 1ull + 1llu + 1LL + 0x1UL + 0b101 + 017 + 0 + 0x0 + 1U + 1Lu + 1uLL;', True),
    ('int c = \'a\' + \'\\n\' + \'\\x41\' + \'\\377\' + L\'a\' + u\'a\' + U\'a\' + u8\'a\' + \'\\\'\' + \'\\\\\' + \'"\' + \'\\0\';', True),
    ('char *s = "a\\tb" "c"; int *w = L"w" L"x"; char *t = u8"z"; int *u = U"y"; short *v = u"x" u"q"; char *e = "\\x41\\101\\"";', True),
    ('const;', False),
    ('static;', False),
    ('typedef;', False),
    ('extern inline;', False),
    ('struct S { _Alignas(8); };', False),
    ('void f(void){ register; }', False),
    ('int;', False),
    ('struct S;', True),
    ('# 1 "/home/me/my project/x.h" 1\nint a;\n#line 5 "C:\\\\Program Files\\\\x.c"\nint b;\n# 7 "a b c.h" 3 4\nint c;', True),
    ('#line 12u\nint a;', False),
    ('#line 0x10\nint a;', False),
    ('# 1 2 3\nint a;', False),
    ('#line "f.c"\nint a;', False),
    ('#line 3 4\nint a;', False),
    ('# 3 "f.c" x\nint a;', False),
    ('#pragma foo   \nint a;\n#pragma\t bar\t\n\n\nint b;\n  #  pragma   baz  qux\nint c;', True),
    ('int x = 5 #\n;', False),
    ('int w; #', False),
    ('#\nint a;', False),
    ('int a; # 5\nint b;', False),
    ('void f(void) { return;', False),
    ('int a[3', False),
    ('int y = f(1, 2', False),
    ('struct s { int x;', False),
    ('enum {', False),
    ('void f(void){ goto', False),
    ('int x = (1 + 2;', False),
    ('int x = 1 + 2);', False),
    # round 6: runs of prefix operators over casts, parenthesised comma arguments, suffixed constants in braces, tagged enums with
    # several declarators, _Atomic members / parameters, parenthesised typedef-named parameters, pragmas before blocks, octal-looking floats
    ('void f(int *p, char *q){ ++*(int *)p; --*(char *)q; ++*p; x = -(int)y; x = ++*(int *)p + --*(short *)q; x = sizeof *(int *)p; x = !(int)++*p; }', True),
    ('void f(int **pp){ x = - - -a; x = !~-+a; x = *&*&a; x = -*++*pp; x = ++**pp; x = --*(*pp)++; x = ~(char)-(long)a; x = sizeof -(int)a; x = -sizeof(int); x = &*pp[1]; }', True),
    ('void f(void){ x = (int)(long)(char)a; x = (int)-a; x = (int)*p; x = (int)&a; x = (int)~a; x = (int)!a; x = (int)sizeof a; x = (int)sizeof(int); x = (int)(a); x = (int)a++; x = (int)++a; }', True),
    ('void f(void){ g((a, b)); g((a, b), c); g(a, (b, c)); h(((a))); k((a = 1)); m(a ? b : c, (d, e) ? f : g); }', True),
    ('int t[] = { 10UL, 20u, 30LL, 0x10UL, 5 + 6UL, 07u }; struct P { unsigned long a; unsigned b; } pp = { 10UL, 20u }, qq[] = { { 1UL, 2u }, { .b = 3u } }; long q = (long){ 40L };', True),
    ('enum color { RED, GREEN } ca, *cb, cc[2]; enum color2 { BLUE = 3 } cd, ce; struct tag2 { int m; } ta, *tb; union tag3 { int n; } ua, ub[2];', True),
    ('struct A { _Atomic(int) m; _Atomic(char *) p; }; void fa(_Atomic(int) x, _Atomic(long) *y); _Atomic(int) ga;', True),
    ('typedef int T; void f1(int ((T))); void f2(int (*(T))); void f3(int (T)); void f5(int (T[2])); void f6(int (T (char)));', True),
    ('typedef int T; void f4(int (*T)(void));', False),
    ('typedef int T; void g(int n){ for (int T = 0; T < n; T++) { T * n; (T)(n); h(T); } }', True),
    ('void f(int x){ for (;;)\n#pragma omp task\n { a; b; } while (x)\n#pragma w\n { c; } if (x)\n#pragma i\n { d; } else\n#pragma e\n { e; } L:\n#pragma l\n { g; } }', True),
    ('void f(int x){ switch (x) { case 1:\n#pragma c\n a; default:\n#pragma d\n b; } switch (x) default:\n#pragma e\n c; }', True),
    ('double d[] = { 09.5, 08e1, 019., 0.8, 00.9, 08.f, 09e-1L, 0e0, 00e1 }; int o = 017 + 00 + 0;', True),
]
