"""Shared runner for the parser properties: generated programs x layouts,
model/implementation correspondence on whole parses (with coordinates and the
token-consumption counter), and the per-property direct oracles."""
import re
from lib import *
from parsecorr import impl_parse, model_req, show_ast
from nodecorr import from_py
import cgen
import corpus

LOC_RE = re.compile(r"^(.*?):(\d+)(?::(\d+))?: ", re.S)


def parse_impl_ast(text, filename="f.c"):
    from pycparser import c_parser
    return c_parser.CParser().parse(text, filename)


def check_coords(expected, actual, pos, path="ast"):
    """C11 oracle: nodes whose coordinate must be the token that spells / starts them."""
    if expected[0] == "list":
        for i, (a, b) in enumerate(zip(expected[1], actual if isinstance(actual, list) else [])):
            d = check_coords(a, b, pos, f"{path}[{i}]")
            if d:
                return d
        return None
    if expected[0] != "node":
        return None
    if expected[3] is not None:
        f, l, c = pos[expected[3]]
        co = actual.coord
        if co is None:
            return f"{path} ({expected[1]}): no coordinate"
        if (co.line, co.column) != (l, c):
            return f"{path} ({expected[1]}): coordinate {co.file}:{co.line}:{co.column}, its token is at {f}:{l}:{c}"
    slots = [s for s in type(actual).__slots__ if s not in ("coord", "__weakref__")]
    for s, e in zip(slots, expected[2]):
        d = check_coords(e, getattr(actual, s), pos, f"{path}.{s}")
        if d:
            return d
    return None


def all_coords(node, acc):
    if node is None or isinstance(node, str):
        return
    if isinstance(node, list):
        for e in node:
            all_coords(e, acc)
        return
    acc.append((type(node).__name__, node.coord))
    for s in type(node).__slots__:
        if s not in ("coord", "__weakref__"):
            all_coords(getattr(node, s), acc)


MUST_HAVE_COORD = {"Decl", "Typedef", "FuncDef", "ID", "Constant", "BinaryOp", "UnaryOp", "Assignment", "TernaryOp", "Cast",
                   "ArrayRef", "StructRef", "FuncCall", "If", "While", "DoWhile", "For", "Switch", "Case", "Default", "Label", "Goto",
                   "Break", "Continue", "Return", "Compound", "EmptyStatement"}


class Suite:
    def __init__(self, ctx, b, broken, prop):
        self.ctx, self.b, self.broken, self.prop = ctx, b, broken, prop
        self.model = Model() if b.driver_ok else None
        self.pending = []       # (text, filename, impl_outcome, tag)
        self.disagreements = []

    def corr(self, text, impl_outcome=None, filename="f.c", tag=""):
        """queue a whole-parse correspondence case"""
        if self.model is None:
            return
        if impl_outcome is None:
            impl_outcome = impl_parse(text, filename)
        self.pending.append((text, filename, impl_outcome, tag))
        if len(self.pending) >= 3000:
            self.flush()

    def flush(self):
        if not self.pending or self.model is None:
            self.pending = []
            return
        outs = self.model.batch([model_req(t, f) for t, f, _, _ in self.pending])
        for (t, f, io, tag), mo in zip(self.pending, outs):
            self.ctx.traces += 1
            if io != mo and "R" not in (io, mo) and io != "TIMEOUT":
                self.disagreements.append((tag, t, io, mo))
        self.pending = []

    def finish(self):
        self.flush()
        if self.model:
            self.model.close()
        if self.disagreements:
            tag, t, io, mo = min(self.disagreements, key=lambda d: len(d[1]))
            self.broken.append({"kind": "correspondence", "name": f"whole-parser model vs CParser.parse ({tag})",
                                "input": t, "implementation": io[:3000], "model": mo[:3000], "count": len(self.disagreements)})

    def violation(self, text, problem, extra=None, filename="f.c"):
        kf = match_known(self.ctx, text, problem)
        if kf:
            return
        p = {"property": self.prop, "input": text, "filename": filename, "problem": problem,
             "replay": f"./check {self.prop} --replay <this file>"}
        if extra:
            p.update(extra)
        if len(self.ctx.violations) < 8:
            self.ctx.violation(p)


def match_known(ctx, text, problem):
    """A violation is suppressed only if its input is one of the listed finding inputs
    or falls in a finding's formally stated class (a decidable predicate on the input)."""
    for f in ctx.findings:
        if f.get("input") is not None and f["input"] == text:
            ctx.known(f["id"], f["what"])
            return f
        cls = f.get("class")
        if cls and cls in KNOWN_CLASSES and KNOWN_CLASSES[cls](text, problem):
            ctx.known(f["id"], f["what"])
            return f
    return None


KNOWN_CLASSES = {}


def _atomic_multi(text, problem):
    """the declaration uses an _Atomic(...) type specifier and has more than one declarator"""
    m = re.search(r"_Atomic\s*\(", text)
    if not m:
        return False
    # declarator list after the closing parenthesis of the specifier, up to the ';'
    depth, i = 0, m.end() - 1
    while i < len(text):
        if text[i] == "(":
            depth += 1
        elif text[i] == ")":
            depth -= 1
            if depth == 0:
                break
        i += 1
    rest = text[i + 1:].split(";")[0]
    d = 0
    for ch in rest:
        if ch in "([{":
            d += 1
        elif ch in ")]}":
            d -= 1
        elif ch == "," and d == 0:
            return True
    return False


KNOWN_CLASSES["atomic_specifier_multi_declarator"] = _atomic_multi


def _adjacent_prefixed_strings(text, problem):
    """two adjacent string literals of which the second has a 2-character prefix (u8) - the only prefixed
    concatenation that goes wrong: value[2:] drops `u8` but the first literal's closing quote stays"""
    return re.search(r'(?:u8|u|U|L)"(?:[^"\\\n]|\\.)*"\s*u8"', text) is not None


KNOWN_CLASSES["adjacent_prefixed_strings"] = _adjacent_prefixed_strings


def known_class(name):
    def deco(fn):
        KNOWN_CLASSES[name] = fn
        return fn
    return deco


def _walk(n):
    if n is None or isinstance(n, str):
        return
    if isinstance(n, list):
        for e in n:
            yield from _walk(e)
        return
    yield n
    for s in type(n).__slots__:
        if s not in ("coord", "__weakref__"):
            yield from _walk(getattr(n, s))


def ast_class(pred):
    """known-finding class decided on the implementation's AST of the input"""
    def f(text, problem):
        try:
            ast = parse_impl_ast(text)
        except Exception:
            return False
        return any(pred(n) for n in _walk(ast))
    return f


def _cn(n):
    return type(n).__name__


KNOWN_CLASSES["tagonly_decl_with_quals"] = ast_class(lambda n: _cn(n) == "Decl" and n.name is None and n.quals and _cn(n.type) in ("Struct", "Union", "Enum"))
KNOWN_CLASSES["int_const_member"] = ast_class(lambda n: _cn(n) == "StructRef" and n.type == "." and _cn(n.name) == "Constant" and "int" in n.name.type)
KNOWN_CLASSES["forinit_multi"] = ast_class(lambda n: _cn(n) == "For" and _cn(n.init) == "DeclList" and len(n.init.decls) > 1)
KNOWN_CLASSES["static_assert_low_prec"] = ast_class(lambda n: _cn(n) == "StaticAssert" and _cn(n.cond) in ("Assignment", "ExprList"))
KNOWN_CLASSES["assign_lvalue_low_prec"] = ast_class(lambda n: _cn(n) == "Assignment" and _cn(n.lvalue) in ("ExprList", "TernaryOp", "Assignment"))
KNOWN_CLASSES["multi_alignas"] = ast_class(lambda n: _cn(n) == "Decl" and isinstance(n.align, list) and len(n.align) > 1)
KNOWN_CLASSES["pragma_operator"] = ast_class(lambda n: _cn(n) == "Pragma" and not isinstance(n.string, str))


def replay_known(ctx, oracle):
    """Replay every listed finding of this property on the implementation: print KNOWN-FINDING if it
    still fails; a finding that no longer fails is simply not reported."""
    for f in ctx.findings:
        if f.get("input") is None:
            continue
        try:
            bad = oracle(f["input"])
        except Exception as e:
            bad = f"oracle exception {e!r}"
        if bad:
            ctx.known(f["id"], f["what"])


def gen_cases(ctx, n, size=(1, 3), depth=2, modes=("single", "random", "lines")):
    for _ in range(n):
        g = cgen.Gen(ctx.rng)
        toks, exp = g.program(size=ctx.rng.randint(*size), depth=depth)
        yield g, toks, exp


def replay(ctx, rp, b):
    text = rp.get("input")
    if text is None and rp.get("broken"):
        text = rp["broken"][0].get("input")
    if text is None:
        log(json.dumps(rp, indent=1)[:4000])
        return 0
    fn = rp.get("filename", "f.c")
    io = impl_parse(text, fn)
    log("input:", repr(text))
    log("implementation:", repr(io[:2000]))
    if b.driver_ok:
        m = Model()
        log("model:         ", repr(m.raw(model_req(text, fn))[:2000]))
        m.close()
    return 0
