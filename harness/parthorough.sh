#!/bin/sh
# parthorough.sh <workers> [ids...] : thorough tier of the given checks (default all), at most <workers> at a time,
# each in its own copy of /verif (already built, so the copies do not rebuild), /repo read-only
W=${1:-4}; shift
IDS=${*:-01 02 03 04 05 06 07 08 09 10 11 12 13 14 15 16 17 18 19}
mkdir -p /tmp/par
printf '%s\n' $IDS | xargs -P "$W" -I{} sh -c 'rsync -a --delete --exclude seeded /verif/ /tmp/par/tverif{}/ && cd /tmp/par/tverif{} && ( time ./check C{} --tier thorough ) > /tmp/par/tlog{}.txt 2>&1'
for i in $IDS; do grep -E "^\[C|^VIOLATION|^real" /tmp/par/tlog$i.txt | tail -4; done
