#!/bin/sh
# thorough tier of every check, one worker (own copy of /verif) per property, /repo read-only
mkdir -p /tmp/par
for i in 01 02 03 04 05 06 07 08 09 10 11 12 13 14 15 16 17 18 19; do
  rsync -a --delete --exclude seeded /verif/ /tmp/par/tverif$i/
  ( cd /tmp/par/tverif$i && ./check C$i --tier thorough > /tmp/par/tlog$i.txt 2>&1 ) &
done
wait
for i in 01 02 03 04 05 06 07 08 09 10 11 12 13 14 15 16 17 18 19; do grep -E "^\[C|^VIOLATION" /tmp/par/tlog$i.txt | tail -3; done
