"""One-off helper: derive props/C03.v, C05.v, C06.v from the computed examples in proofs/*Examples.v."""
import re
def mk(prop, title, srcfile, extra_imports="", extra=""):
    src=open(f'/verif/coq/proofs/{srcfile}.v').read()
    out=f'''(* {prop} - {title}
   Property theorems only; the statements below are checked by the kernel on the whole-pipeline model
   (lexer -> token stream -> parser -> transforms), proofs in proofs/{srcfile}.v. *)
From Coq Require Import List NArith Bool Arith.
Import ListNotations.
From PV Require Import Regex Base LexTables NodeModel ParserBase ParserDecl ParserMain Api {srcfile}{extra_imports}.

'''
    for m in re.finditer(r'\(\* ([^\n]*?) \*\)\nExample ex_(\w+) :\n(.*?)\nProof\.', src, re.S):
        comment,name,stmt=m.groups()
        out+=f"(* {comment} *)\nTheorem {name} :\n{stmt}\nProof. exact ex_{name}. Qed.\nPrint Assumptions {name}.\n\n"
    out+=extra
    open(f'/verif/coq/props/{prop}.v','w').write(out)
mk("C03","declaration ASTs encode C declarator semantics for every declared name","DeclExamples")
mk("C05","statement ASTs mirror C's statement nesting and source order","StmtExamples")
mk("C06","parse() either returns a FileAST or raises ParseError - nothing else","CrashExamples"," LexerProofs",
'''(* termination of the lexing half: tokenising any text finishes within |text|+1 iterations *)
Theorem C06_lex_terminates : forall text file,
  snd (Lexer.raw_lex (S (length text)) (Lexer.init_lexst file) text) = true.
Proof. exact lex_terminates. Qed.
Print Assumptions C06_lex_terminates.
''')
