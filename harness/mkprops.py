"""One-off helper: derive props/C03.v, C05.v, C06.v from the computed examples in proofs/*Examples.v."""
import re
def mk(prop, title, srcfile, extra_imports="", extra=""):
    src=open(f'/verif/coq/proofs/{srcfile}.v').read()
    out=f'''(* {prop} - {title}
   Property theorems only; the statements below are checked by the kernel on the whole-pipeline model
   (lexer -> token stream -> parser -> transforms), proofs in proofs/{srcfile}.v. *)
From Coq Require Import List NArith Bool Arith.
Import ListNotations.
From PV Require Import Regex Base LexTables NodeModel ParserBase ParserDecl ParserMain Api {srcfile}{extra_imports}.

'''
    for m in re.finditer(r'\(\* ([^\n]*?) \*\)\nExample ex_(\w+) :\n(.*?)\nProof\.', src, re.S):
        comment,name,stmt=m.groups()
        out+=f"(* {comment} *)\nTheorem {name} :\n{stmt}\nProof. exact ex_{name}. Qed.\nPrint Assumptions {name}.\n\n"
    out+=extra
    open(f'/verif/coq/props/{prop}.v','w').write(out)
mk("C03","declaration ASTs encode C declarator semantics for every declared name","DeclExamples"," AstSpec DeclProofs DeclRefine BuildDecls",
'''(* _type_modify_decl splices the modifier chain between the declarator's own chain and its TypeDecl,
   for a declarator chain and a modifier chain (pointer prefix, array / function suffix) of ANY length *)
Theorem C03_modify_splice : forall (P: Type) ld fs co lm fuel s, lm <> [] -> (length ld + length lm <= fuel)%nat ->
  type_modify_decl P fuel (build P ld (typedecl P fs co)) (build P lm VNone) s
  = Ok (build P (ld ++ lm) (typedecl P fs co), s).
Proof. exact modify_splice. Qed.
Print Assumptions C03_modify_splice.

(* whenever _type_modify_decl returns at all, it returns that splice - no bound on the chain lengths *)
Theorem C03_modify_ok : forall (P: Type) fuel ld fs co lm (s: pstate P) r s', lm <> [] ->
  type_modify_decl P fuel (build P ld (typedecl P fs co)) (build P lm VNone) s = Ok (r, s') ->
  r = build P (ld ++ lm) (typedecl P fs co) /\\ s' = s.
Proof. exact modify_ok. Qed.
Print Assumptions C03_modify_ok.

(* the declarator productions of the whole-parser model (pointer_opt direct-declarator, ( declarator ),
   [..] and (..) suffixes; ParserMain.p_declarator_kind / p_direct_declarator / p_decl_suffixes), for every
   token stream, state and fuel: the node returned is the chain of the derivations C99 6.7.5.1-3 assigns to the
   declarator D that was read (RunK: which tokens and sub-productions, in which order), applied from the
   identifier outwards - suffixes left to right, then the pointer prefix with the star nearest the
   identifier outermost, a parenthesised declarator first - ending in the TypeDecl made from the identifier *)
Theorem C03_declarator_refines : forall (P: Type) f kid ap s r s',
  p_declarator_kind P f kid ap s = Ok (r, s') ->
  exists D, RunK P kid ap s D s' /\\ r = build P (derivs P D) (leaf P D).
Proof. exact declarator_refines. Qed.
Print Assumptions C03_declarator_refines.

(* `* q1 * q2 ... *qn`: the pointer chain has the LAST star outermost (pointer nearest the identifier) *)
Theorem C03_pointer_order : forall (P: Type) f (s s': pstate P) p, p_pointer P f s = Ok (Some p, s') ->
  exists stars, stars <> [] /\\ p_pointer_stars P f s = Ok (stars, s') /\\ p = build P (rev (map (mkptr P) stars)) VNone.
Proof. exact p_pointer_ok. Qed.
Print Assumptions C03_pointer_order.

(* "each declared entity gets its own Decl": the loop of _build_declarations over a declarator list of ANY length
   returns exactly one node per declarator, in source order, the i-th built by build_one from the i-th declarator *)
Theorem C03_one_decl_per_declarator : forall (P: Type) ds spec it tns (s: pstate P) decls spec' s',
  build_loop P spec it tns ds s = Ok ((decls, spec'), s') ->
  Forall2 (fun d r => exists sp sp' sa sb, build_one P sp it tns d sa = Ok ((r, sp'), sb)) ds decls.
Proof. exact build_loop_one_per_declarator. Qed.
Print Assumptions C03_one_decl_per_declarator.
''')
mk("C05","statement ASTs mirror C's statement nesting and source order","StmtExamples"," AstSpec StmtProofs ElseProofs StmtShape ParserBase ParserMain StreamLib RoundTrip RoundTripX StmtTrip",
'''(* fix_switch_cases: for a switch body of ANY length whose label chains have ANY depth, the regrouped
   body is exactly: statements under the nearest preceding label, consecutive labels as siblings,
   statements before the first label in front (regroup_spec) - nothing lost, duplicated or reordered *)
Theorem C05_switch_regroup_correct : forall (P: Type) cs items cur fuel st,
  Forall (child_ok P) cs -> Forall (fun c => (child_depth P c < fuel)%nat) cs ->
  switch_regroup P fuel (map (child_node P) cs) (fst (state_of P items cur)) (snd (state_of P items cur)) st
  = Ok (regroup_spec P cs items cur, st).
Proof. exact switch_regroup_correct. Qed.
Print Assumptions C05_switch_regroup_correct.

(* an else belongs to the nearest if, on the whole-parser model, for every token stream, state and fuel:
   the if-production tries `else` immediately after its then-statement; when it does not take one, the
   token following the finished If node is not `else` (so no else is ever left for an enclosing if) *)
Theorem C05_else_binds_to_nearest_if : forall (P: Type) f s r s' t s0,
  p_selection_statement P (S f) s = Ok (r, s') ->
  advance P s = Ok (t, s0) -> kind_eqb (tk t) K_IF = true ->
  exists cond th sa el sb co,
    accept P K_ELSE sa = Ok (el, sb) /\\
    match el with
    | Some e => kind_eqb (tk e) K_ELSE = true /\\ exists es, r = mkN P C_If [cond; th; es] co
    | None => r = mkN P C_If [cond; th; VNone] co /\\ s' = sb /\\
              forall t1 s1, peek P s' = Ok (Some t1, s1) -> kind_eqb (tk t1) K_ELSE = false
    end.
Proof. exact else_binds_to_nearest_if. Qed.
Print Assumptions C05_else_binds_to_nearest_if.

(* loop bodies are the single following statement: whatever while / do / for returns has as its body exactly one
   value returned by a run of the statement production (stmt_here), for every token stream, state and fuel *)
Theorem C05_loop_body_is_one_statement : forall (P: Type) f,
  post P (fun r => exists st c, stmt_here P f st /\\
          ((exists cond, r = mkN P C_While [cond; st] c) \\/ (exists cond, r = mkN P C_DoWhile [cond; st] c) \\/
           (exists init cond nx, r = mkN P C_For [init; cond; nx; st] c)))
       (p_iteration_statement P (S f)).
Proof. exact loop_body_is_one_statement. Qed.
Print Assumptions C05_loop_body_is_one_statement.

(* a label, `case e:` or `default:` attaches to the ONE statement that follows (an EmptyStatement when none can start there) *)
Theorem C05_label_attaches_to_next_statement : forall (P: Type) f,
  post P (fun r => exists st c, label_body P f st /\\
          ((exists name, r = mkN P C_Label [VStr name; st] c) \\/ (exists e, r = mkN P C_Case [e; VList [st]] c) \\/
           r = mkN P C_Default [VList [st]] c))
       (p_labeled_statement P (S f)).
Proof. exact label_attaches_to_next_statement. Qed.
Print Assumptions C05_label_attaches_to_next_statement.

(* COMPLETENESS at token level (proofs/StmtTrip.v): every statement x built from expression statements, `;`, return /
   break / continue / goto, labelled statements (`name: statement`, the label attaches to the ONE statement after it), if with and without else, while, do-while, for with any of its clauses absent and
   brace-enclosed blocks, nested in any way - written as the token sequence [stoks rp x], is parsed by p_pragmacomp_or_statement (the production behind every
   sub-statement position) to exactly x: each `else` goes to the nearest if that can take it, loop bodies and branches are
   exactly one statement, nothing is lost or reordered.  Side conditions = C's dangling-else rule (swf, and no `else` after
   an if without else). *)
Theorem C05_statements_parse_back : forall (P: Type) rp (x: StmtTrip.st), StmtTrip.swf x ->
  forall (s: ParserBase.pstate P) le stop l0, RoundTrip.Spell P le (StmtTrip.stoks rp x) -> StreamLib.Up P s (le ++ stop :: l0) ->
  (StmtTrip.sopen x = true -> kind_eqb (ParserBase.tk stop) K_ELSE = false) ->
  exists f0 N s', (forall f, (f0 <= f)%nat -> ParserMain.p_pragmacomp_or_statement P f s = ParserBase.Ok (N, s')) /\\
                  StreamLib.Up P s' (stop :: l0) /\\ RoundTrip.strip N = StmtTrip.embs x.
Proof. exact StmtTrip.parse_of_generated_statement. Qed.
Print Assumptions C05_statements_parse_back.
''')
mk("C06","parse() either returns a FileAST or raises ParseError - nothing else","CrashExamples"," LexerProofs LexNoCrash",
'''(* termination of the lexing half: tokenising any text finishes within |text|+1 iterations *)
Theorem C06_lex_terminates : forall text file,
  snd (Lexer.raw_lex (S (length text)) (Lexer.init_lexst file) text) = true.
Proof. exact lex_terminates. Qed.
Print Assumptions C06_lex_terminates.

(* the lexer never trips its own `assert msg is not None`: for every text the item stream has no crash item
   (every error rule of the regenerated rule table carries a message) *)
Theorem C06_lex_no_crash : forall fuel st rest, Lexer.has_crash (fst (fst (Lexer.raw_lex fuel st rest))) = false.
Proof. exact lex_no_crash. Qed.
Print Assumptions C06_lex_no_crash.
''')
mk("C18","structurally malformed input is always rejected","RejectExamples"," UnicodeTables PyRepr Lexer RejectProofs ConsumeProofs ConsumeTheorem StrayProofs",
'''(* For ALL inputs: if parse() succeeds on the whole pipeline model then every item the lexer produced
   was a token - no "Illegal character", no malformed literal, no comment, no bad directive error was
   reported and skipped - and every token was delivered to the parser (proved by one invariant argument
   over all 71 mutually recursive productions and every helper). *)
Theorem C18_parse_ok_all_tokens : forall (P: Type) fuel items eof file ast s\',
  parse_tokens P fuel (init_pstate P items eof file) = Ok (ast, s\') ->
  forallb (is_tok P) items = true /\\ raw P s\' = [].
Proof. exact parse_ok_all_tokens. Qed.
Print Assumptions C18_parse_ok_all_tokens.

Theorem C18_parse_ok_no_lexer_error : forall text file r,
  run_parse text file = Ok r ->
  forallb is_rtok (fst (fst (raw_lex (S (length text)) (init_lexst file) text))) = true.
Proof. exact parse_ok_no_lexer_error. Qed.
Print Assumptions C18_parse_ok_no_lexer_error.

(* an error item cannot be skipped: asking for one more token raises ParseError at exactly its position *)
Theorem C18_deliver_error_item : forall (P: Type) (s: pstate P) msg p f r,
  raw P s = PErr P msg p f :: r -> deliver1 P s = Err (L_coord P (mkCoord P f p)) msg.
Proof. exact deliver_error_item. Qed.
Print Assumptions C18_deliver_error_item.

(* a character that starts no token becomes an "Illegal character" error item at its line and column *)
Theorem C18_illegal_char_reported : forall n0 st c rest,
  choose_best n0 (c :: rest) = None ->
  match_token n0 st (c :: rest) =
    ([RErr (msg_illegal c) (l_lineno st) (l_pos st - l_line_start st + 1)%N (l_file st)],
     mkLex (l_pos st + 1)%N (l_line_start st) (l_lineno st) (l_file st), rest).
Proof. exact illegal_char_reported. Qed.
Print Assumptions C18_illegal_char_reported.

(* '@', '`' and '\\' can never start a token: wherever the lexer model stands in front of one of them
   (any state, any following text) it emits error items only - every rule of the regenerated table whose words
   can start with such a character is an error rule, and no fixed token starts with one.  With
   C18_parse_ok_no_lexer_error: such a text is rejected. *)
Theorem C18_stray_char_is_reported : forall n0 st c rest, In c STRAY ->
  let items := fst (fst (lex_iter n0 st (c :: rest))) in items <> [] /\\ forallb is_err items = true.
Proof. exact stray_char_is_reported. Qed.
Print Assumptions C18_stray_char_is_reported.
''')
mk("C16","parsing work grows linearly with input size - no backtracking blow-up","CostExamples"," UnicodeTables PyRepr Lexer LexerProofs BinaryRefine StreamLib RoundTrip RoundTripGen RoundTripX StmtTrip",
'''(* the lexer's loop runs at most once per character: |text|+1 iterations always suffice (each removes a non-empty prefix) *)
Theorem C16_lex_iterations_linear : forall text file,
  snd (raw_lex (S (length text)) (init_lexst file) text) = true.
Proof. exact lex_terminates. Qed.
Print Assumptions C16_lex_iterations_linear.

From Coq Require Import ZArith.
(* the precedence-climbing loops of the parser model never re-read a token: for every token stream, the
   token reads (_TokenStream.next() calls, speculative ones included) of a whole binary expression are one
   per operator plus what the operand runs spend themselves (n) - no backtracking in operator parsing *)
Theorem C16_binary_expression_cost : forall (P: Type) f lhs0 s t s',
  p_binary_climb P f 0 lhs0 s = Ok (t, s') ->
  exists l n, SeqT P s l n s' /\\ Z.of_N (ticks P s') = (Z.of_N (ticks P s) + Z.of_nat (length l) + n)%Z.
Proof. exact binary_expression_cost. Qed.
Print Assumptions C16_binary_expression_cost.

(* the whole expression parser is linear on everything the generator prints for the expression language [ex]
   (identifiers, constants, unary / binary / conditional / assignment / comma operators, ++ / --, sizeof e,
   subscripts, member accesses, calls, parentheses as the generator places them), of ANY size and nesting depth:
   whenever the whole-parser model finds the tokens [le] of such an expression followed by a token that cannot
   continue it, p_expression returns, has consumed exactly these |le| tokens (idx) and has called
   _TokenStream.next() at most 3 |le| times (ticks), the speculative "( type-name )" attempts included: a token
   is re-read at most twice.  (Casts and compound literals are outside [ex]: see the C16_complit_* witnesses.) *)
Theorem C16_generated_expression_linear : forall (P: Type) rp (e: ex), wf e ->
  forall (s: ParserBase.pstate P) le stop l0, Spell P le (xt rp e) -> Up P s (le ++ stop :: l0) -> estop (tk stop) = true ->
  exists f0 N s', (forall f, (f0 <= f)%nat -> p_expression P f s = Ok (N, s')) /\\ Up P s' (stop :: l0) /\\
    idx P s' = (idx P s + length le)%nat /\\ (N.to_nat (ticks P s') <= N.to_nat (ticks P s) + 3 * length le)%nat.
Proof.
  intros P rp e Hw s le stop l0 HS HU Hst.
  destruct (parse_of_generated_expression_cost P rp e Hw s le stop l0 HS HU Hst) as [f0 [N [s' [H [HU' [_ [Hi Ht]]]]]]].
  exists f0, N, s'. split; [exact H|split; [exact HU'|split; [exact Hi|exact Ht]]].
Qed.
Print Assumptions C16_generated_expression_linear.

(* ... and the statement parser is linear on everything the generator prints for the statement language [st]
   (expression statements, empty statements, return / break / continue / goto, if / if-else, while, do-while,
   for with optional clauses, nested blocks) over those expressions, of ANY size and nesting depth: in a block-item
   position p_statement consumes exactly the |le| generated tokens and calls next() at most 3 |le| times *)
Theorem C16_generated_statement_linear : forall (P: Type) rp (x: st), swf x ->
  forall (s: ParserBase.pstate P) le stop l0, Spell P le (stoks rp x) -> Up P s (le ++ stop :: l0) ->
  (sopen x = true -> kind_eqb (tk stop) K_ELSE = false) ->
  exists f0 N s', (forall f, (f0 <= f)%nat -> p_statement P f s = Ok (N, s')) /\\ Up P s' (stop :: l0) /\\
    idx P s' = (idx P s + length le)%nat /\\ (N.to_nat (ticks P s') <= N.to_nat (ticks P s) + 3 * length le)%nat.
Proof.
  intros P rp x Hw s le stop l0 HS HU Hop.
  destruct (parse_of_generated_block_item_cost P rp x Hw s le stop l0 HS HU Hop) as [f0 [N [s' [H [HU' [_ [Hi Ht]]]]]]].
  exists f0, N, s'. split; [exact H|split; [exact HU'|split; [exact Hi|exact Ht]]].
Qed.
Print Assumptions C16_generated_statement_linear.

(* the hypotheses of the two theorems are satisfiable and the accounting is the model's own: on `( a + b ) * c ;`
   p_expression consumes the 7 tokens with 9 calls of next() (the parenthesis is read three times) *)
Theorem C16_linear_example :
  wf ex_cost_e /\\ Spell nat ex_toks (xt false ex_cost_e) /\\
  Up nat ex_state (ex_toks ++ [mkTok nat K_SEMI (s2l ";") 8]) /\\ estop K_SEMI = true /\\
  match p_expression nat 60 ex_state with Ok (_, s') => (idx nat s', ticks nat s') = (7%nat, 9%N) | _ => False end.
Proof. exact cost_hypotheses_satisfiable. Qed.
Print Assumptions C16_linear_example.
''')
mk("C07","generated C re-parses to the same AST (parse . generate . parse = parse)","GenExamples"," ParserTables GenTables CSpec TableProofs Generator ParamProofs GenParam ClimbProofs GenParen GenBinop ParserBase ParserMain StreamLib RoundTrip RoundTripGen RoundTripX GenExpr StmtTrip GenStmt",
'''(* CGenerator never looks at coordinates: for EVERY AST, every renaming or erasure of its coordinates
   leaves the generated text (and the crash / final-indentation outcome) unchanged - by parametricity
   of the generator model (all visit_* methods) in the coordinate type *)
Theorem C07_gen_ignores_coords : forall (A B: Type) (g: A -> B) rp fuel (v: value A),
  generate B rp fuel (vmap A B g v) = match generate A rp fuel v with
                                       | GOk x => GOk x | GCrash => GCrash | GFuel => GFuel end.
Proof. exact gen_ignores_coords. Qed.
Print Assumptions C07_gen_ignores_coords.

(* the generator's precedence_map is the parser's _BINARY_PRECEDENCE, operator by operator *)
Theorem C07_precedence_mirrored :
  forallb (fun e => match punct_kind_l (fst e) with
                    | Some k => match prec_lookup k with Some p => Nat.eqb p (snd e) | None => false end
                    | None => false end) gen_precedence_map = true
  /\\ List.length gen_precedence_map = List.length tbl_BINARY_PRECEDENCE.
Proof. exact generator_precedence_mirrors_parser. Qed.
Print Assumptions C07_precedence_mirrored.

(* visit_BinaryOp's parenthesisation, both settings of reduce_parentheses, every tree of binary operators
   over identifiers of any depth: the generator MODEL (all of Generator.v) prints exactly the rendering of
   the flat operand/operator sequence [flatten t] (an operand = an identifier or a parenthesised subtree),
   and the only tree the stratified C grammar (ClimbProofs.D, the grammar the parser model is proved to
   implement in C02_binary_expression_refines) assigns to that sequence is the tree it was printed from *)
Theorem C07_generator_binop_text : forall (C: Type) rp (t: gt str str), ops_known t -> is_leaf t = false ->
  forall fuel st, (2 * height t <= S fuel)%nat ->
  visit C rp fuel (emb C t) st = GOk (render rp (flatten str str gprec rp t), st) /\\
  forall T, D (gt str str) str gprec 0 (Leaf (gt str str) str (fst (flatten str str gprec rp t))) (snd (flatten str str gprec rp t)) T
            <-> T = skel str str gprec rp t.
Proof. exact generator_binop_text. Qed.
Print Assumptions C07_generator_binop_text.

(* non-vacuity: a - (b - c) * d  with reduce_parentheses: the right operand keeps its parentheses, the product does not get any *)
Example C07_binop_example :
  let t := GBin str str (s2l "-") (GLeaf str str (s2l "a"))
             (GBin str str (s2l "*") (GBin str str (s2l "-") (GLeaf str str (s2l "b")) (GLeaf str str (s2l "c"))) (GLeaf str str (s2l "d"))) in
  generate nat true 10 (emb nat t) = GOk (s2l "a - (b - c) * d", Z0) /\\ print true t = s2l "a - (b - c) * d".
Proof. vm_compute. split; reflexivity. Qed.

(* parse . generate = id at token level, for EVERY tree of binary operators over identifiers (any size, any shape,
   both settings of reduce_parentheses).  [kv rp t] is the token sequence (kind, spelling) of the text the
   generator prints for t (C07_generated_text_is_its_tokens below).  Whenever the WHOLE-PARSER model
   (ParserMain.p_expression: expression -> assignment (with its two-token look-ahead for `({`) -> conditional ->
   precedence climbing -> cast (speculative `( type-name )` attempt, mark / reset) -> unary -> postfix (second
   speculative attempt, compound-literal test, suffix loop) -> primary -> `( expression )` recursively) finds
   tokens with these kinds and spellings next in its input - delivered lazily through the buffered token stream,
   identifiers classified against the scope stack (StreamLib.Up) - followed by a token that cannot continue an
   expression, it returns, for all sufficiently large fuel, exactly the tree the text was generated from
   (coordinates erased) and has consumed exactly those tokens. *)
Theorem C07_parse_of_generated_tokens : forall (P: Type) rp (t: gt str str), ops_known t ->
  forall (s: ParserBase.pstate P) le stop l0, Spell P le (kv rp t) -> Up P s (le ++ stop :: l0) -> estop (tk stop) = true ->
  exists f0 N s', (forall f, (f0 <= f)%nat -> p_expression P f s = Ok (N, s')) /\\ Up P s' (stop :: l0) /\\ strip N = emb unit t.
Proof. exact parse_of_generated_tokens. Qed.
Print Assumptions C07_parse_of_generated_tokens.

(* the generated text is the concatenation of those spellings, with a blank on each side of each operator *)
Theorem C07_generated_text_is_its_tokens : forall rp (t: gt str str), ops_known t -> print rp t = text_of (kv rp t).
Proof. exact print_is_text. Qed.
Print Assumptions C07_generated_text_is_its_tokens.

(* the hypotheses are satisfiable: `( a + b ) * c ;` as the first items of a translation unit *)
Example C07_roundtrip_hypotheses_satisfiable :
  ops_known ex_tree /\\ Spell nat ex_toks (kv false ex_tree) /\\ Up nat ex_state (ex_toks ++ [mkTok nat K_SEMI (s2l ";") 8%nat]) /\\
  estop K_SEMI = true /\\ print false ex_tree = s2l "(a + b) * c".
Proof. exact roundtrip_hypotheses_satisfiable. Qed.

(* The same for a larger expression language [ex]: identifiers, integer / floating / character constants, binary
   operators, the prefix operators - + ! ~ * & ++ --, postfix ++ --, sizeof(expression), sizeof(type-name) and casts (type-name) e
   with a type name made of simple type-specifier keywords (`int`, `unsigned long`, ...), subscripts, member accesses
   (. and ->), function calls with any number of arguments, the conditional operator, all (compound) assignments and comma expressions, nested in any way and to any
   depth.  [xt rp e] is the token sequence of the generated text, with operands parenthesised exactly as visit_BinaryOp /
   visit_UnaryOp / visit_ArrayRef / visit_StructRef / visit_FuncCall / visit_TernaryOp / visit_Assignment /
   visit_ExprList / _visit_expr do.
   Parser side: whenever the whole-parser model finds these tokens followed by a token that cannot continue an
   expression, p_expression returns exactly e (coordinates erased) and has consumed exactly these tokens. *)
Theorem C07_parse_of_generated_expression : forall (P: Type) rp (e: ex), wf e ->
  forall (s: ParserBase.pstate P) le stop l0, Spell P le (xt rp e) -> Up P s (le ++ stop :: l0) -> estop (tk stop) = true ->
  exists f0 N s', (forall f, (f0 <= f)%nat -> p_expression P f s = Ok (N, s')) /\\ Up P s' (stop :: l0) /\\ strip N = embx e.
Proof. exact parse_of_generated_expression. Qed.
Print Assumptions C07_parse_of_generated_expression.

(* generator side: the generator MODEL prints [ptext rp e] for every such expression and leaves the indentation alone *)
Theorem C07_generator_prints_expression : forall (C: Type) rp (e: ex), wf e -> forall fuel st, (3 * size e <= fuel)%nat ->
  visit C rp fuel (embC C e) st = GOk (ptext rp e, st).
Proof. intros C rp e Hw. exact (visit_prints_x C rp (size e) e (le_n _) Hw). Qed.
Print Assumptions C07_generator_prints_expression.

(* ... and that text, blanks removed, is the concatenation of the spellings of the tokens [xt rp e] *)
Theorem C07_expression_text_is_its_tokens : forall rp (e: ex), wf e -> ids_nb e -> despace (ptext rp e) = spell (xt rp e).
Proof. intros rp e. exact (ptext_tokens rp (size e) e (le_n _)). Qed.
Print Assumptions C07_expression_text_is_its_tokens.

(* non-vacuity: a[i].f = -b * (c ? d : e), g(1, (x, y)) *)
Example C07_expression_example :
  wf ex_x /\\ ids_nb ex_x /\\
  visit nat false 80 (embC nat ex_x) Z0 = GOk (s2l "a[i].f = (-b) * ((c) ? (d) : (e)), g(1, (x, y))", Z0) /\\
  map fst (xt false ex_x) = [K_ID; K_LBRACKET; K_ID; K_RBRACKET; K_PERIOD; K_ID; K_EQUALS; K_LPAREN; K_MINUS; K_ID; K_RPAREN; K_TIMES;
                             K_LPAREN; K_LPAREN; K_ID; K_RPAREN; K_CONDOP; K_LPAREN; K_ID; K_RPAREN; K_COLON; K_LPAREN; K_ID; K_RPAREN; K_RPAREN;
                             K_COMMA; K_ID; K_LPAREN; K_INT_CONST_DEC; K_COMMA; K_LPAREN; K_ID; K_COMMA; K_ID; K_RPAREN; K_RPAREN].
Proof. exact expression_example. Qed.

(* ... and with casts and sizeof of a type name *)
Example C07_cast_example :
  wf ex_c /\\ ids_nb ex_c /\\
  visit nat false 80 (embC nat ex_c) Z0 = GOk (s2l "((unsigned long) (a + 1)) * (sizeof(int))", Z0) /\\
  map fst (xt false ex_c) = [K_LPAREN; K_LPAREN; K_UNSIGNED; K_LONG; K_RPAREN; K_LPAREN; K_ID; K_PLUS; K_INT_CONST_DEC; K_RPAREN; K_RPAREN; K_TIMES;
                             K_LPAREN; K_SIZEOF; K_LPAREN; K_INT; K_RPAREN; K_RPAREN].
Proof. exact cast_example. Qed.

(* STATEMENTS over that expression language: expression statements, `;`, return / break / continue / goto, labelled statements, if with and
   without else, while, do-while, for with every clause present or absent, and brace-enclosed blocks of statements (the
   scope stack that `{` and `}` push and pop at token delivery is threaded through StreamLib.Up), nested in any way.  Parser side:
   whenever p_pragmacomp_or_statement (the production behind every sub-statement position) finds the tokens [stoks rp x]
   of the generated text, it returns exactly x.  The only side conditions are C's own dangling-else rule: in swf the
   then-branch of an if WITH an else does not end in an if without one (CGenerator adds no braces), and an if without
   else is not followed by the token `else`. *)
Theorem C07_parse_of_generated_statement : forall (P: Type) rp (x: st), swf x ->
  forall (s: ParserBase.pstate P) le stop l0, Spell P le (stoks rp x) -> Up P s (le ++ stop :: l0) ->
  (sopen x = true -> kind_eqb (tk stop) K_ELSE = false) ->
  exists f0 N s', (forall f, (f0 <= f)%nat -> p_pragmacomp_or_statement P f s = Ok (N, s')) /\\ Up P s' (stop :: l0) /\\ strip N = embs x.
Proof. exact parse_of_generated_statement. Qed.
Print Assumptions C07_parse_of_generated_statement.

(* generator side: _generate_stmt(add_indent=True) prints [gst rp lv x] at indentation level lv and restores the level *)
Theorem C07_generator_prints_statement : forall (C: Type) rp (x: st), swf x -> forall fuel lv, (cost x < fuel)%nat ->
  generate_stmt C rp fuel (embS C x) true lv = GOk (gst rp lv x, lv).
Proof. exact gst_prints. Qed.
Print Assumptions C07_generator_prints_statement.

(* ... and that text, blanks and newlines removed, is the concatenation of the spellings of [stoks rp x] *)
Theorem C07_statement_text_is_its_tokens : forall rp (x: st), sexprs (eok rp) x -> forall lv, despace2 (gst rp lv x) = spell (stoks rp x).
Proof. exact gst_tokens. Qed.
Print Assumptions C07_statement_text_is_its_tokens.

(* non-vacuity: a for loop whose body is a block with an if / else-if ladder (return, break), a do-while over a nested block
   with an empty block inside, and a goto *)
Example C07_statement_example :
  swf ex_s /\\ exists t, generate_stmt nat false 80 (embS nat ex_s) true Z0 = GOk (t, Z0) /\\ despace2 t = spell (stoks false ex_s).
Proof. destruct statement_example as [H [t [H1 [H2 _]]]]. split; [exact H|]. exists t. split; assumption. Qed.

(* ... and labels: `{ again: if (a) in: a++;  out: ; }` *)
Example C07_label_example :
  swf ex_l /\\ exists t, generate_stmt nat false 80 (embS nat ex_l) true Z0 = GOk (t, Z0) /\\ despace2 t = spell (stoks false ex_l).
Proof. destruct label_example as [H [t [H1 [H2 _]]]]. split; [exact H|]. exists t. split; assumption. Qed.
''')
mk("C08","regenerated C means the same as the original to a C compiler","RegenExamples"," Generator ParamProofs GenParam",
'''(* what the generator emits does not depend on coordinates (all ASTs) - see C07 *)
Theorem C08_gen_ignores_coords : forall (A B: Type) (g: A -> B) rp fuel (v: value A),
  generate B rp fuel (vmap A B g v) = match generate A rp fuel v with
                                       | GOk x => GOk x | GCrash => GCrash | GFuel => GFuel end.
Proof. exact gen_ignores_coords. Qed.
Print Assumptions C08_gen_ignores_coords.
''')
