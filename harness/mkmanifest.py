"""Regenerate MANIFEST.json from the table below (kept valid at all times)."""
import json, os
HERE = os.path.dirname(os.path.dirname(os.path.abspath(__file__)))

COMMON_NOTE = ("Trusted: Coq 8.16.1 kernel (vm_compute for table theorems and witnesses, no native_compute); the fail-closed translators; "
               "the hand-written model is tied to the code by differential correspondence only (modelled, not verified); extraction (ExtrOcamlBasic) and "
               "ocaml/driver.ml for the correspondence only. Every property theorem prints 'Closed under the global context'. ")

def P(text, note, technique, design):
    return dict(text=text, note=COMMON_NOTE + note, technique=technique, design=design)

CHECKS = {
 "C01": P("Proof (Coq), partial: table theorems on tables regenerated from c_lexer.py / c_parser.py against C99 tables written from the standard (every C99/C11 keyword and punctuator is a token with its own class; FIRST(declaration-specifiers), FIRST(expression), FIRST(statement) cover the grammar; declaration/expression decision deterministic; operators complete); digraph coverage refuted with witness. Acceptance of all derivations of Annex A (C01_full) is not proved: it is explored by the grammar-directed generator and the corpus, with the whole-parser model tied by correspondence.",
          "Known findings (rejections of valid C) are listed in known_findings.json and replayed each run.", "Coq table theorems over regenerated tables + whole-parser model correspondence + grammar-directed acceptance search", "6/C01"),
 "C02": P("Proof (Coq): the two nested loops of _parse_binary_expression are sound for the stratified C grammar for operator sequences of any length and any precedence function (climb_sound); the regenerated precedence table is C99's level assignment; assignment operators complete. The abstract loops are tied to CParser._parse_binary_expression at its own entry point, the whole expression ladder through the whole-parser model correspondence; the direct oracle compares every generated expression tree (3 renderings x 9 contexts) with the implementation's AST.",
          "The cast/unary/postfix ladder, ?: and assignment right recursion are covered by correspondence and oracle, not yet by theorems.", "Coq proof (climbing soundness, table theorems) + component and whole-parser correspondence", "6/C02"),
 "C03": P("Proof (Coq): _type_modify_decl splices the modifier chain between a declarator chain and its TypeDecl for chains of ANY length (modify_splice: pointer prefixes and array/function suffixes compose in C's inside-out order); kernel-computed theorems on the whole-pipeline model for the inside-out declarator rule, shared specifiers and _Atomic(T); the multi-declarator _Atomic(...) case is refuted with a witness (known finding). All derivation sequences x contexts are explored by the generator whose expected chains come from an independent reading of C99 6.7.5, with the whole-parser model tied by correspondence.",
          "_fix_decl_name_type / _build_declarations are covered by correspondence and oracle, not yet by unbounded theorems.", "Coq kernel-computed theorems on the parser model + correspondence + declarator oracle", "6/C03"),
 "C04": P("Proof (Coq): scope_refines - for EVERY history of scope entries, exits and declarations the stack-of-dictionaries model answers exactly as C's block-scope rule read off the history (nearest declaration still in scope, scanning backwards over closed blocks); the parser's _add_typedef_name / _add_identifier / push are those events; algebraic laws of the scope stack for all names and stacks (lookup after declare, other names untouched, fresh scope transparent, inner hides outer, undeclared is not a type, same-scope clash raises). The history-level statement is explored: generated declaration histories probed with sizeof(NAME) after every event against the generator's own C scoping, whole-parser model tied by correspondence.",
          "The lexer-lookahead interaction (registration visible from the second token after the declarator) is covered by correspondence only.", "Coq proof of scope-stack laws + history oracle + correspondence", "6/C04"),
 "C05": P("Proof (Coq): fix_switch_cases regroups a switch body of ANY length with label chains of ANY depth exactly as specified - statements under the nearest preceding label, consecutive labels siblings, nothing lost, duplicated or reordered (switch_regroup_correct); kernel-computed theorems on the whole-pipeline model (dangling else, switch regrouping, for-declaration DeclList, pragma placement) and a refutation witness (static assertion as sub-statement). Statement trees over the full statement alphabet are explored with expected trees from an independent reading of C99 6.8, whole-parser model tied by correspondence.",
          "The statement productions themselves (dangling else, loop bodies, labels) are covered by correspondence and oracle.", "Coq kernel-computed theorems on the parser model + correspondence + statement oracle", "6/C05"),
 "C06": P("Proof (Coq), partial: lexing terminates within |text|+1 iterations for every text; the four crash classes found (and repaired by fix: commits) are kernel-computed theorems on the model. No-crash for the whole parser is not proved: it is explored exhaustively (all <= 2 / <= 3 token-class sequences after 7 prefixes, mutants, noise) with the exception class and message compared between model and implementation.",
          "RecursionError is the tolerated escape (model: fuel).", "Coq proof (lexer termination) + exhaustive short-sequence correspondence and outcome classification", "6/C06"),
 "C07": P("Proof (Coq): CGenerator is modelled in Coq (every visit_* method, tied text-exactly); for ALL ASTs the generated text does not depend on coordinates (parametricity); the generator's precedence_map (regenerated) mirrors the parser's table operator by operator and both equal C99's levels; kernel-computed round trips parse.generate.parse = parse (both configurations) on the whole model and refutation witnesses for two known findings. The round trip for all programs parse.generate.parse = parse and second-generation equality are decided by the direct oracle on generated programs, accepted mutants and the corpus, both generator configurations.",
          "The unbounded round-trip theorem (gen_expr_renders + parse_render) is not proved; the round trip for all programs is decided by the oracle.", "Coq table theorems + round-trip oracle on the implementation", "6/C07"),
 "C08": P("Proof (Coq), partial: about the generator model (every visit_* method, tied text-exactly to CGenerator): coordinate independence for all ASTs (parametricity), the mirrored precedence tables, kernel-computed exact regenerations of characteristic programs (every specifier, declarator, operator and statement token present once, in order) and refutation witnesses for the two known AST-ambiguity findings. Compiler equivalence itself is decided by the direct oracle: gcc -S of original vs regenerated text on type-correct programs from a semantic generator and on the corpus, both generator configurations.",
          "gcc is outside any model: `compiles to exactly the same code` is executed, not proved.", "Coq theorems on the generator model + gcc -S equality oracle", "6/C08"),
 "C09": P("Proof (Coq): progress of every token() iteration, termination within |text|+1 iterations, losslessness (segments concatenate to the input, every non-blank segment produces a token or an error, token spelling = consumed characters), longest match among fixed tokens and regex-vs-punctuator choice, for all strings; table theorems are recomputed on the tables regenerated from c_lexer.py. The hand-written lexer model is tied to CLexer by differential correspondence (exhaustive short strings, class-alphabet strings, rendered token sequences with directives).",
          "Python re = backtracking priority semantics for the opcode subset (tested each run). Column/line exactness: theorems for _match_token and blank/newline steps under the state-agreement invariant (C09_token_position); directive lines (#line re-basing) are covered by the round-trip oracle and correspondence.", "Coq proof over regenerated lexer tables + model/code correspondence", "6/C09"),
 "C10": P("Proof (Coq), partial: no rule matches the empty string; the order-sensitive facts of the regenerated rule table; every error rule has a message; constant typing (multi-character constants are int; suffix-free spellings are int; suffix forms by computation). The iff between well-formed C99 literals and literal tokens is explored exhaustively over all strings up to length 4/5 of a 24-character alphabet against an independent literal grammar, with the lexer model and the master regex tied by correspondence.",
          "C10_full (first_rule = spec_scan for all strings) is not proved.", "Coq table theorems + exhaustive bounded literal oracle + correspondence", "6/C10"),
 "C11": P("Proof (Coq): coordinate provenance for the whole parser model, for all inputs, by parametricity (every position / file name in any coordinate of the AST or in a ParseError location is one the parser was given). Exact token identity, presence of coordinates and error locations are explored with the renderer's recorded positions under layouts with linemarkers; model tied by correspondence with coordinates kept.",
          "Paramcoq generates the proof term, the kernel checks it. The file component being the most recent one is a known deviation (node-build-time filename).", "Coq parametricity theorem on the whole parser model + position oracle + correspondence", "6/C11"),
 "C12": P("Proof (Coq): the regenerated state inventory shows every attribute written after construction is re-assigned at the top of parse() / input() (table theorems on facts read statically from the source); a call that starts by re-assigning all its state is history independent, and a reused instance equals a fresh one on any call sequence. Histories (failing calls leaving scopes open, clashing names) are run on real instances against fresh ones.",
          "Object identity (results share no nodes) is tested, not proved.", "Coq table theorems over a static state inventory + generic history-independence theorem + history oracle", "6/C12"),
 "C13": P("Proof (Coq), partial: no function or method writes to a module-level / class-level / default-argument object (regenerated static scan); interleavings of instances with disjoint state equal solo runs for every schedule (token granularity). Real parses are interleaved token by token through a scheduling lexer injected via lexer= and run in free threads.",
          "Bytecode-level preemption under the GIL is outside the model (tested only).", "Coq table theorem + generic isolation theorem + scheduled-interleaving oracle", "6/C13"),
 "C14": P("Proof (Coq): the 49 checked-in classes equal the template image of the cfg, and the real _ast_gen.py output equals it too (complete finite domain); constructor order, attr_names, children order as readable corollaries; children() and iteration agree for every instance of every class with arbitrary field values. Node.show / NodeVisitor are hand-modelled and tied by correspondence on a class sweep (every subset of optional children absent) and random trees.",
          "tr_ast.py reads c_ast.py statically and aborts on any body outside the generated shape.", "Coq proof over the regenerated class table + correspondence", "6/C14"),
 "C15": P("Proof (Coq): eval(repr(s)) = s for every Python string and every printability oracle (unrepr_repr_str); slots[:-2] is exactly the constructor's keyword set for all 49 classes; every slot is assigned by __init__; repr(str) never contains a raw newline. repr text is modelled and tied text-exactly; eval(repr), pickle (protocols 2..5) and deepcopy round trips with identity-disjointness and regenerated-text equality are executed on the implementation.",
          "CPython's pickle/copy/eval are outside the model; the tree-level eval(repr(t)) = t is not yet proved (string level is).", "Coq table theorems + repr correspondence + round-trip oracle", "6/C15"),
 "C16": P("Proof (Coq), partial: the lexer's loop runs at most |text|+1 times; exponential growth of the nested compound-literal family is established by kernel-computed token-read counts on the model (k=1..6), linear families double exactly. The token-read counter of model and implementation must be equal on every input (correspondence); 25 scalable families are checked for at most doubling; lexer regex families under a wall-clock margin.",
          "sre's own cost is outside the model.", "Coq kernel-computed cost witnesses + counter correspondence + growth oracle", "6/C16"),
 "C17": P("Proof (Coq): for all inputs the whole parser model commutes with every renaming of positions and file names, hence two item sequences with the same kinds and spellings give the same outcome with provenance erased (parametricity); and two ASTs that differ only in coordinates generate the same text (parametricity of the generator model). Layout variants and redundant parentheses are explored on the implementation, model tied by correspondence.",
          "That the lexer yields the same kinds/spellings for two layouts is C09's (round-trip oracle, correspondence).", "Coq parametricity theorem on the whole parser model + layout-variant oracle", "6/C17"),
 "C18": P("Proof (Coq): for ALL inputs, if parse() succeeds on the whole-parser model then every item the lexer produced was a token (no illegal character, malformed literal, comment or bad directive was reported and skipped) and every token was delivered - one invariant argument over all 71 mutually recursive productions and every helper (parse_ok_all_tokens, parse_ok_no_lexer_error); an error item cannot be skipped at delivery (ParseError at exactly its position); a character that starts no token becomes an Illegal-character item at its line and column; kernel-computed rejections for the malformed classes. Single-bracket mutants, non-token injections and all unbalanced bracket strings (length <= 4/6) in three contexts are explored, model tied by correspondence.",
          "parse = Ok implies balanced brackets is not yet proved for the whole grammar.", "Coq lemmas + kernel-computed witnesses + exhaustive bracket-mutant oracle", "6/C18"),
 "C19": P("Proof (Coq), partial: preprocess_file's command-line assembly and parse_file's pipeline (glue) for all arguments. Every header x dialect x argument form is executed through the real parse_file and compared with preprocessing and parsing by hand; the preprocessed texts go through the parser-model correspondence.",
          "cpp and the header files are outside any model; subsets/orders tested only.", "Coq theorems about the glue + exhaustive header sweep", "6/C19"),
}

NOT_APPLICABLE = {}

def main():
    checks = []
    for pid, c in sorted(CHECKS.items()):
        checks.append({
            "property_id": pid,
            "quick_cmd": f"./check {pid} --tier quick",
            "thorough_cmd": f"./check {pid} --tier thorough",
            "evidence_file": f"/verif/evidence/{pid}.json",
            "replay_cmd_template": f"./check {pid} --replay {{path}}",
            "engine": "coq-proof+correspondence",
            "level_claimed": {"category": "proof", "text": c["text"], "design_ref": "DESIGN.md section " + c["design"]},
            "level_note": c["note"],
            "technique": c["technique"],
        })
    props = [json.loads(l)["id"] for l in open(os.path.join(HERE, "properties.jsonl"))]
    na = []
    for pid in props:
        if pid not in CHECKS:
            na.append({"property_id": pid, "reason": NOT_APPLICABLE.get(pid, "not yet built: the check for this property is still under construction (see DESIGN.md section 6); no claim is made for it at this commit")})
    m = {
        "version": 1,
        "setup_cmd": "./setup.sh",
        "hooks": {
            "guard": "PYCPARSER_VERIF",
            "enable": "no source hook is needed: the harness reaches private methods directly, monkey-patches c_parser._TokenStream for counting and injects lexers through the public lexer= parameter; the guard is reserved and unused",
            "baseline_off_cmd": "cd /repo && /venv/bin/python -m pytest -ra -q -p no:cacheprovider --timeout=900 --continue-on-collection-errors",
            "source_commits": [],
            "add_only": True,
        },
        "engines": [{"name": "coq-proof+correspondence", "path": "/verif/check",
                     "serves_properties": sorted(CHECKS),
                     "kind_free_text": "Coq 8.16.1 development (regenerated tables + hand model + theorems), model extracted to OCaml and compared with the implementation; direct oracles on the implementation search for failing inputs"}],
        "checks": checks,
        "notes": "All checks share one Coq development under /verif/coq; ./setup.sh builds it. Known findings: /verif/known_findings.json.",
        "not_applicable": na,
    }
    json.dump(m, open(os.path.join(HERE, "MANIFEST.json"), "w"), indent=1)

if __name__ == "__main__":
    main()
