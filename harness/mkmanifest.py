"""Regenerate MANIFEST.json from the table below (kept valid at all times)."""
import json, os
HERE = os.path.dirname(os.path.dirname(os.path.abspath(__file__)))

CHECKS = {
 "C09": dict(
   text="Proof (Coq): progress of every token() iteration, termination within |text|+1 iterations, losslessness (segments concatenate to the input, every non-blank segment produces a token or an error, token spelling = consumed characters), longest match among fixed tokens and regex-vs-punctuator choice, for all strings; table theorems are recomputed on the tables regenerated from c_lexer.py. The hand-written lexer model is tied to CLexer by differential correspondence (exhaustive short strings, class-alphabet strings, rendered token sequences with directives).",
   note="Trusted: Coq kernel; tr_lexer.py translator (re._parser parse trees -> Coq regex ASTs); Python re = backtracking priority semantics for the opcode subset (tested each run); extraction (ExtrOcamlBasic) + driver for the correspondence only. Position exactness is checked by the round-trip oracle and correspondence, not yet by a theorem.",
   technique="Coq proof over regenerated lexer tables + model/code correspondence",
   design="6/C09"),
}

NOT_APPLICABLE = {}

def main():
    checks = []
    for pid, c in sorted(CHECKS.items()):
        checks.append({
            "property_id": pid,
            "quick_cmd": f"./check {pid} --tier quick",
            "thorough_cmd": f"./check {pid} --tier thorough",
            "evidence_file": f"/verif/evidence/{pid}.json",
            "replay_cmd_template": f"./check {pid} --replay {{path}}",
            "engine": "coq-proof+correspondence",
            "level_claimed": {"category": "proof", "text": c["text"], "design_ref": "DESIGN.md section " + c["design"]},
            "level_note": c["note"],
            "technique": c["technique"],
        })
    props = [json.loads(l)["id"] for l in open(os.path.join(HERE, "properties.jsonl"))]
    na = []
    for pid in props:
        if pid not in CHECKS:
            na.append({"property_id": pid, "reason": NOT_APPLICABLE.get(pid, "not yet built: the check for this property is still under construction (see DESIGN.md section 6); no claim is made for it at this commit")})
    m = {
        "version": 1,
        "setup_cmd": "./setup.sh",
        "hooks": {
            "guard": "PYCPARSER_VERIF",
            "enable": "no source hook is needed: the harness reaches private methods directly, monkey-patches c_parser._TokenStream for counting and injects lexers through the public lexer= parameter; the guard is reserved and unused",
            "baseline_off_cmd": "cd /repo && /venv/bin/python -m pytest -ra -q -p no:cacheprovider --timeout=900 --continue-on-collection-errors",
            "source_commits": [],
            "add_only": True,
        },
        "engines": [{"name": "coq-proof+correspondence", "path": "/verif/check",
                     "serves_properties": sorted(CHECKS),
                     "kind_free_text": "Coq 8.16.1 development (regenerated tables + hand model + theorems), model extracted to OCaml and compared with the implementation; direct oracles on the implementation search for failing inputs"}],
        "checks": checks,
        "notes": "All checks share one Coq development under /verif/coq; ./setup.sh builds it. Known findings: /verif/known_findings.json.",
        "not_applicable": na,
    }
    json.dump(m, open(os.path.join(HERE, "MANIFEST.json"), "w"), indent=1)

if __name__ == "__main__":
    main()
