"""Semantic generator: small type-correct C99/C11 programs (accepted by gcc -std=c11) that use every
statement kind, every operator, structs/unions/enums/bit-fields, function pointers, designated
initializers, compound literals, qualifiers and storage classes.  Used by the C08 oracle
(gcc -S on original vs regenerated text)."""
import random

PRELUDE = [
    "typedef int T;",
    "typedef unsigned long UL;",
    "enum E { K0, K1 = 5, K2 };",
    "struct In { int c; char d; };",
    "struct S { int a; int b : 3; unsigned u : 4; struct In in; int arr[4]; };",
    "union U { int i; float f; char bytes[4]; };",
    "int g1 = 1, g2 = 2;",
    "static unsigned u1 = 3u;",
    "long l1 = 10L;",
    "int garr[8] = { [2] = 5, [5] = 7 };",
    "struct S s1 = { .a = 1, .b = 2, .in = { .c = 3, .d = 'x' }, .arr = { 1, 2 } }, *sp = &s1;",
    "union U un = { .i = 4 };",
    "const char *msg = \"hi\" \" there\";",
    "volatile int vflag, vg2;",
    "double d1 = 1.5, d2 = 2.25, d3 = 1e-3; float f1 = 0.5f;",
    "extern int ext_fn(int, ...);",
    "static int sf(int x) { return x + 1; }",
    "static int two(int x, int y) { return x * y - 1; }",
    "int (*fp)(int) = sf;",
    "int (*fparr[2])(int) = { sf, sf };",
    "_Static_assert(sizeof(int) >= 2, \"int\");",
    "_Alignas(16) int aligned_v;",
    "_Noreturn void die(void);",
]

INT_LVALUES = ["g1", "g2", "a", "b", "garr[1]", "garr[a & 7]", "s1.a", "sp->a", "s1.in.c", "sp->arr[2]", "un.i", "loc", "*ip", "larr[1]"]
INT_ATOMS = INT_LVALUES + ["1", "2", "7", "0x1F", "017", "3u", "5L", "'a'", "K1", "K2", "s1.b", "(int) l1", "sizeof(int)", "sizeof s1",
                           "sf(a)", "two(a, b)", "fp(2)", "fparr[1](3)", "(*fp)(1)", "(int){4}", "((struct S){ .a = 9 }).a", "_Alignof(long)",
                           "(a, b)", "t1", "(int) 2.5", "(int) u1", "msg[0]",
                           "((struct S *) sp)->a", "((int *) larr)[1]", "((int (*)(int)) fp)(2)", "((char *) msg)[0]", "((struct S *) sp)->arr[1]", "(*(struct S *) sp).a", "((int *) ip)[0]++"]
BIN = ["+", "-", "*", "&", "|", "^", "<<", "<", ">", "<=", ">=", "==", "!=", "&&", "||"]
DIVS = ["/", "%"]
ASSIGN = ["=", "+=", "-=", "*=", "&=", "|=", "^=", "<<=", ">>="]


class Sem:
    def __init__(self, rng):
        self.r = rng
        self.labels = 0

    def expr(self, d):
        return self.expr_k(d)[0]

    def expr_k(self, d):
        """(text, kind): kind is 'atom', 'assign' (top level is an assignment or a comma-free ternary: needs parentheses as an
        operand to stay valid C) or 'other'"""
        r = self.r
        if d > 0 and r.random() < 0.2:
            return self.chain(), "assign"
        if d > 0 and r.random() < 0.12:
            return self.fexpr(), "other"
        if d <= 0 or r.random() < 0.25:
            return r.choice(INT_ATOMS), "atom"
        k = r.randint(0, 11)
        if k <= 4:
            return f"{self.op(d - 1)} {r.choice(BIN)} {self.op(d - 1)}", "other"
        if k == 5:
            return f"{self.op(d - 1)} {r.choice(DIVS)} ({self.op(d - 1)} | 1)", "other"
        if k == 6:
            return f"{self.op(d - 1)} ? {self.expr(d - 1)} : {self.op(d - 1)}", "assign"
        if k == 7:
            return f"{r.choice(['-', '~', '!', '+'])} {self.op(d - 1, unary=True)}", "other"
        if k == 8:
            return f"{r.choice(INT_LVALUES)}{r.choice(['++', '--'])}", "other"
        if k == 9:
            return f"{r.choice(['++', '--'])}{r.choice(INT_LVALUES)}", "other"
        if k == 10:
            return f"({r.choice(['long', 'unsigned', 'char', 'T', 'UL'])}) {self.op(d - 1, unary=True)}", "other"
        return f"{r.choice(INT_LVALUES)} {r.choice(ASSIGN)} {self.expr(d - 1)}", "assign"

    def fexpr(self):
        """floating-point / volatile arithmetic with explicit grouping on either side: regrouping it changes what is computed"""
        r = self.r
        a = lambda: r.choice(["d1", "d2", "d3", "f1", "1.5", "2.0f", "(double) a", "vflag", "vg2"])
        o = lambda: r.choice(["+", "-", "*", "/"])
        forms = ["{a} {o} ({b} {p} {c})", "({a} {o} {b}) {p} {c}", "{a} {o} {b} {p} {c}", "{a} {o} ({b} {p} ({c} {q} {d}))", "(({a} {o} {b}) {p} {c}) {q} {d}",
                 "{a} {o} ({b} {o} {c})", "{a} * ({b} * {c}) + ({d} + ({a} + {b}))"]
        return "(int) (" + r.choice(forms).format(a=a(), b=a(), c=a(), d=a(), o=o(), p=o(), q=o()) + ")"

    def chain(self):
        """a flat chain of 2..6 binary operators over atoms and prefix / postfix / cast operands with NO parentheses (optionally under a
        conditional and an assignment): what it means is entirely up to C's precedence and associativity rules, i.e. up to the compiler"""
        r = self.r

        def operand():
            k = r.randint(0, 9)
            a = r.choice(INT_ATOMS)
            if k == 0:
                return r.choice(["-", "~", "!", "+"]) + " " + a
            if k == 1:
                return f"({r.choice(['long', 'unsigned', 'char', 'T'])}) {a}"
            if k == 2:
                return r.choice(INT_LVALUES) + r.choice(["++", "--"])
            if k == 3:
                return "sizeof " + r.choice(["a", "b", "loc", "g1", "s1", "s1.a", "larr", "garr[1]", "*ip", "t1", "msg", "1", "'a'", "sp->arr", "un"])
            return a
        ops = BIN + ["/", "%", ">>"]
        e = operand()
        for _ in range(r.randint(2, 6)):
            o = r.choice(ops)
            rhs = operand()
            e += f" {o} " + (f"({rhs} | 1)" if o in ("/", "%") else rhs)
        if r.random() < 0.3:
            e = f"{e} ? {self.chain() if r.random() < 0.3 else operand()} : {operand()} {r.choice(ops[:13])} {operand()}"
        if r.random() < 0.3:
            e = f"{r.choice(INT_LVALUES)} {r.choice(ASSIGN)} {r.choice(INT_LVALUES)} {r.choice(ASSIGN)} {e}"
        return e

    def op(self, d, unary=False):
        """an operand.  Atoms stay bare; assignments and conditionals are parenthesised (they are not valid operands otherwise);
        every other operand is left WITHOUT parentheses half of the time, so that the grouping the C compiler sees depends on
        precedence and associativity - the compiler, not this generator, is the judge of what the text means.  The operand of a
        prefix operator or cast is parenthesised unless atomic (a binary operand there would change the expression's type
        validity, e.g. -a = b)."""
        e, kind = self.expr_k(d)
        if kind == "atom":
            return e
        if kind == "assign" or unary or self.r.random() < 0.5:
            return f"({e})"
        return e

    def stmt(self, d, in_loop=False, in_switch=False):
        r = self.r
        if d <= 0:
            k = r.randint(0, 4)
            if k == 0:
                return ";"
            if k == 1 and (in_loop or in_switch):
                return "break;"
            if k == 2 and in_loop:
                return "continue;"
            if k == 3:
                return f"return {self.expr(1)};"
            return f"{self.expr(2)};"
        k = r.randint(0, 11)
        if k == 0:
            return "{ " + " ".join(self.item(d - 1, in_loop, in_switch) for _ in range(r.randint(0, 3))) + " }"
        if k == 1:
            return f"if ({self.expr(1)}) {self.stmt(d - 1, in_loop, in_switch)}"
        if k == 2:
            return f"if ({self.expr(1)}) {{ {self.stmt(d - 1, in_loop, in_switch)} }} else {self.stmt(d - 1, in_loop, in_switch)}"
        if k == 3:
            return f"while ({self.expr(1)}) {self.stmt(d - 1, True, in_switch)}"
        if k == 4:
            return f"do {self.stmt(d - 1, True, in_switch)} while ({self.expr(1)});"
        if k == 5:
            init = r.choice(["", "a = 0", "int i = 0", "int i = 0, j = 1"])
            return f"for ({init}; {r.choice(['', self.expr(1)])}; {r.choice(['', 'a++', 'a++, b--'])}) {self.stmt(d - 1, True, in_switch)}"
        if k == 6:
            cases = []
            used = set()
            for _ in range(r.randint(1, 3)):
                v = r.randint(0, 9)
                if v in used:
                    continue
                used.add(v)
                lab = f"case {v}:" + (f" case {v + 10}:" if r.random() < 0.3 else "")
                cases.append(lab + " " + " ".join(self.stmt(d - 1, in_loop, True) for _ in range(r.randint(1, 2))))
            if r.random() < 0.6:
                cases.insert(r.randint(0, len(cases)), "default: " + self.stmt(d - 1, in_loop, True))
            return f"switch ({self.expr(1)}) {{ " + " ".join(cases) + " }"
        if k == 7:
            self.labels += 1
            return f"L{self.labels}: {self.stmt(d - 1, in_loop, in_switch)}"
        if k == 8 and self.labels:
            return f"goto L{r.randint(1, self.labels)};"
        return self.stmt(0, in_loop, in_switch)

    def item(self, d, in_loop=False, in_switch=False):
        r = self.r
        if r.random() < 0.25:
            n = r.randint(0, 99999)
            return r.choice([f"int v{n} = {self.expr(1)};", f"const long c{n} = 3, *pc{n} = &c{n};", f"static T st{n};",
                             f"struct S ls{n} = {{ .a = {self.expr(1)}, .arr = {{ [1] = 2 }} }};", f"int m{n}[2][3] = {{ {{ 1, 2 }}, {{ [2] = 3 }} }};",
                             f"enum E en{n} = K1;", f"register unsigned char rc{n} = 'q';", f"int (*lf{n})(int, int) = two;",
                             f"volatile T vt{n} = (T) l1;", f"union U lu{n} = {{ .f = 1.5f }};"])
        return self.stmt(d, in_loop, in_switch)

    def function(self, name, depth):
        self.labels = 0
        body = " ".join(self.item(depth) for _ in range(self.r.randint(1, 5)))
        return (f"{self.r.choice(['', 'static ', 'inline static '])}int {name}(int a, int b) {{ int loc = a; int larr[3] = {{ 1, 2, 3 }}; int *ip = &loc; T t1 = 0; "
                f"{body} return loc + larr[0] + *ip + t1; }}")

    def program(self, nfun=2, depth=2):
        return "\n".join(PRELUDE + [self.function(f"fn{i}", depth) for i in range(nfun)]) + "\n"


# hand-written, self-contained, compilable programs: constructs whose meaning depends on details the random generator
# reaches rarely (unnamed bit-fields, ?: grouping, for-init lists, casts as operands, comma expressions in brackets, ...)
SEMZOO = [
    # unnamed bit-fields decide the layout
    "struct S { unsigned a:3; unsigned :5; unsigned b:4; unsigned :0; unsigned c:2; } s = {1, 2, 3};\nint f(void){ return s.b + s.c + (int)sizeof s; }\nstruct T { char c; int :0; char d; int : 7; short e; } t = {1, 2, 3};\nint g(void){ return t.d + t.e; }",
    # conditional operator grouping
    "int g1(int a,int b,int c,int d,int e){ return (a?b:c)?d:e; }\nint g2(int a,int b,int c,int d,int e){ return a?b:(c?d:e); }\nint g3(int a,int b,int c,int d,int e){ return a?(b?c:d):e; }\nint g4(int a,int b,int c){ return (a, b) ? c : (b, a); }\nint g5(int a,int b,int c){ int x; x = a ? b : c; return (x = a) ? b : c; }",
    # for-init declarations with several declarators of one base type
    "int h1(int n){ int s = 0; for (unsigned int i = 0, end = n; i < end; i++) s += i; return s; }\nint h2(int n){ int s = 0; for (long long index = 7, x = 2; index < n; index += x) s++; return s; }\nint h3(int n){ int x = 3; for (unsigned int i = 0, index = 7; i < index; i++) x++; return x; }",
    # casts as operands
    "int c1(double d, int i){ return (int)d * i + (int)(d + i) - (char)i / (short)d; }\nint c2(int *p, long l){ return *(int *)l + (int)(long)p + -(int)l + !(int)l + ~(int)l; }\nlong c3(int i){ return (long)i << 3 | (long)(i >> 1); }\nint c4(char *p){ return (int)*p++ + (int)p[1] + (int)-*p; }",
    # unary / postfix mixtures
    "int u1(int *p, int i){ return *p++ + (*p)++ + ++*p + *++p - -i - - -i + +i - +-i; }\nint u2(int a, int b){ return a - -b + a + +b - (a-- - --b) + (a++ + ++b); }\nint u3(int a){ return !a + !!a + ~a + ~~a + -~a + ~-a; }\nint u4(int **pp){ return **pp + *pp[0] + (*pp)[1] + *(*pp + 1) + **(pp + 1); }",
    # precedence of every binary operator pair that matters
    "int b1(int a,int b,int c){ return a - (b - c) + (a - b) - c + a / (b / c) + a / b / c + a % (b * c) + a * (b % c); }\nint b2(int a,int b,int c){ return (a & b) == c | a & (b == c) | (a | b) ^ c | a ^ (b & c) | (a << b) + c | a << (b + c); }\nint b3(int a,int b,int c){ return (a || b) && c || a && (b || c) || (a < b) == (b < c) || a < (b == c); }\nint b4(int a,int b,int c){ return (a, b, c) + (a = b, c) + (a += b -= c); }",
    # member access, arrays of structs, function pointers
    "struct P { int x, y; struct P *next; int arr[3]; }; struct P ps[2], *pp = ps;\nint m1(void){ return (*pp).x + pp->y + (*pp->next).x + pp->next->arr[1] + (&ps[1])->y + (*(pp + 1)).x + ps[0].arr[2]; }\nint (*fp)(int); int (*fpa[2])(int); int (*(*fpp)(void))(int);\nint m2(int i){ return fp(i) + (*fp)(i) + fpa[1](i) + (*fpa[0])(i) + fpp()(i) + (*(*fpp)())(i); }",
    # designated initialisers, compound literals, strings
    "struct Q { int a; int b[3]; struct { int c, d; } in; }; struct Q q1 = { .b = {1, [2] = 3}, .in.d = 4, .a = 5 }, q2 = { 1, {2, 3}, {4} };\nint ar[] = { [3] = 1, [1] = 2, 7, [0] = 9 };\nchar s1[] = \"a\" \"b\", s2[5] = \"xy\", *s3 = \"\\x41\\101\\n\";\nint d1(void){ return ((struct Q){ .a = 1 }).a + ((int[]){1, 2, 3})[1] + sizeof ((char[]){\"abc\"}) + q1.in.d + ar[2] + s1[1] + s2[3]; }",
    # enumerators, sizeof, alignment
    "enum E { A = 1, B = A << 2, C = (A + 2), D = sizeof(int) > 2 ? 3 : 4, F };\n_Alignas(16) int al1; _Alignas(double) char al2; struct AL { char c; _Alignas(8) int i; }; struct AL al3;\nint e1(void){ return A + B + C + D + F + sizeof(enum E) + _Alignof(struct AL) + sizeof al3 + sizeof(int[B]) + sizeof(int (*)[3]); }",
    # switch / case ranges of statements, labels, goto, do-while
    "int w1(int x){ int r = 0; switch (x) { case 1: case 2: r = 1; case 3: { r += 2; break; } default: r = 4; case -1: r++; } return r; }\nint w2(int n){ int i = 0; again: if (i < n) { i++; goto again; } do i--; while (i > 0 && n--); while (n) { if (n & 1) break; else n >>= 1; continue; } return i; }\nint w3(int a, int b){ if (a) if (b) return 1; else return 2; else if (b) return 3; return 4; }",
    # qualifiers, storage classes, pointers to pointers, arrays of pointers
    "static const volatile int cv = 3; extern int ex; static int *const cp = 0; const int *pc; int *const *volatile cpv;\nint *ap[3]; int (*pa)[3]; int **ppi; int *(*pfa[2])(int *, char **);\nint q1(void){ return cv + (cp != 0) + (pc == 0) + sizeof ap + sizeof pa + sizeof *pa + sizeof pfa; }\nstatic inline int q2(register int r){ auto int a = r; return a; }\n_Noreturn void die(void); _Thread_local int tl = 1; static _Thread_local int stl;",
    # K&R definition, variadic, array parameters
    "int k1(a, b) int a; char *b; { return a + *b; }\nint k2(int n, ...);\nint k3(int a[static 3], int b[const], int n, int c[n][n]){ return a[0] + b[1] + c[1][1]; }\nint k4(int (*f)(int, ...), int x){ return f(x, 1, 2); }",
    # comma expressions in every bracketed position
    "int z1(int n){ int a[(n, 3)]; a[(n, 0)] = (n, 1); return a[0] + sizeof(int[(n, 2)]); }\nint k(int, int, int);\nint z2(int x){ switch (x) { case (1 + 2): return 1; } return (x, x + 1); }\nint z3(int x, int y){ return k(x, (y, x), y) + k((x, y), x, (x = y, y)); }",
    # integer / floating / character constants
    "long long n1 = 1u + 1ul + 1lu + 1ull + 1LL + 0x1UL + 0b101 + 017 + 0 + 0x0;\ndouble n2 = 0x1p-3 + 0x.8p1 + 1.5f + 1.e3L + .5 + 1e+3 + 1E-2f;\nint n3 = 'a' + '\\n' + '\\x41' + '\\377' + L'a' + '\\'' + '\\\\' + '\"' + '\\0' + 'ab';\nint n4(void){ return -1 - -1 + - -1 + 1 - 1u + -0x10 + -010 + (1.0 > 0); }",
    # typedef scoping
    "typedef int T; typedef T *PT; typedef T AT[3]; typedef T FT(T);\nT t1(T a, PT p, AT arr, FT *f){ T T2 = a; { typedef char T; T c = 1; T2 += c + sizeof(T); } return T2 + *p + arr[0] + f(a) + sizeof(T); }\nint t2(void){ int T = 2; return T * T; }\nstruct TS { T T; T u; }; T t3(struct TS s){ return s.T + s.u; }",
]
