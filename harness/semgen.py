"""Semantic generator: small type-correct C99/C11 programs (accepted by gcc -std=c11) that use every
statement kind, every operator, structs/unions/enums/bit-fields, function pointers, designated
initializers, compound literals, qualifiers and storage classes.  Used by the C08 oracle
(gcc -S on original vs regenerated text)."""
import random

PRELUDE = [
    "typedef int T;",
    "typedef unsigned long UL;",
    "enum E { K0, K1 = 5, K2 };",
    "struct In { int c; char d; };",
    "struct S { int a; int b : 3; unsigned u : 4; struct In in; int arr[4]; };",
    "union U { int i; float f; char bytes[4]; };",
    "int g1 = 1, g2 = 2;",
    "static unsigned u1 = 3u;",
    "long l1 = 10L;",
    "int garr[8] = { [2] = 5, [5] = 7 };",
    "struct S s1 = { .a = 1, .b = 2, .in = { .c = 3, .d = 'x' }, .arr = { 1, 2 } }, *sp = &s1;",
    "union U un = { .i = 4 };",
    "const char *msg = \"hi\" \" there\";",
    "volatile int vflag, vg2;",
    "double d1 = 1.5, d2 = 2.25, d3 = 1e-3; float f1 = 0.5f;",
    "extern int ext_fn(int, ...);",
    "static int sf(int x) { return x + 1; }",
    "static int two(int x, int y) { return x * y - 1; }",
    "int (*fp)(int) = sf;",
    "int (*fparr[2])(int) = { sf, sf };",
    "_Static_assert(sizeof(int) >= 2, \"int\");",
    "_Alignas(16) int aligned_v;",
    "_Noreturn void die(void);",
]

INT_LVALUES = ["g1", "g2", "a", "b", "garr[1]", "garr[a & 7]", "s1.a", "sp->a", "s1.in.c", "sp->arr[2]", "un.i", "loc", "*ip", "larr[1]"]
INT_ATOMS = INT_LVALUES + ["1", "2", "7", "0x1F", "017", "3u", "5L", "'a'", "K1", "K2", "s1.b", "(int) l1", "sizeof(int)", "sizeof s1",
                           "sf(a)", "two(a, b)", "fp(2)", "fparr[1](3)", "(*fp)(1)", "(int){4}", "((struct S){ .a = 9 }).a", "_Alignof(long)",
                           "(a, b)", "t1", "(int) 2.5", "(int) u1", "msg[0]",
                           "((struct S *) sp)->a", "((int *) larr)[1]", "((int (*)(int)) fp)(2)", "((char *) msg)[0]", "((struct S *) sp)->arr[1]", "(*(struct S *) sp).a", "((int *) ip)[0]++"]
BIN = ["+", "-", "*", "&", "|", "^", "<<", "<", ">", "<=", ">=", "==", "!=", "&&", "||"]
DIVS = ["/", "%"]
ASSIGN = ["=", "+=", "-=", "*=", "&=", "|=", "^=", "<<=", ">>="]


class Sem:
    def __init__(self, rng):
        self.r = rng
        self.labels = 0

    def expr(self, d):
        return self.expr_k(d)[0]

    def expr_k(self, d):
        """(text, kind): kind is 'atom', 'assign' (top level is an assignment or a comma-free ternary: needs parentheses as an
        operand to stay valid C) or 'other'"""
        r = self.r
        if d > 0 and r.random() < 0.2:
            return self.chain(), "assign"
        if d > 0 and r.random() < 0.12:
            return self.fexpr(), "other"
        if d <= 0 or r.random() < 0.25:
            return r.choice(INT_ATOMS), "atom"
        k = r.randint(0, 11)
        if k <= 4:
            return f"{self.op(d - 1)} {r.choice(BIN)} {self.op(d - 1)}", "other"
        if k == 5:
            return f"{self.op(d - 1)} {r.choice(DIVS)} ({self.op(d - 1)} | 1)", "other"
        if k == 6:
            return f"{self.op(d - 1)} ? {self.expr(d - 1)} : {self.op(d - 1)}", "assign"
        if k == 7:
            return f"{r.choice(['-', '~', '!', '+'])} {self.op(d - 1, unary=True)}", "other"
        if k == 8:
            return f"{r.choice(INT_LVALUES)}{r.choice(['++', '--'])}", "other"
        if k == 9:
            return f"{r.choice(['++', '--'])}{r.choice(INT_LVALUES)}", "other"
        if k == 10:
            return f"({r.choice(['long', 'unsigned', 'char', 'T', 'UL'])}) {self.op(d - 1, unary=True)}", "other"
        return f"{r.choice(INT_LVALUES)} {r.choice(ASSIGN)} {self.expr(d - 1)}", "assign"

    def fexpr(self):
        """floating-point / volatile arithmetic with explicit grouping on either side: regrouping it changes what is computed"""
        r = self.r
        a = lambda: r.choice(["d1", "d2", "d3", "f1", "1.5", "2.0f", "(double) a", "vflag", "vg2"])
        o = lambda: r.choice(["+", "-", "*", "/"])
        forms = ["{a} {o} ({b} {p} {c})", "({a} {o} {b}) {p} {c}", "{a} {o} {b} {p} {c}", "{a} {o} ({b} {p} ({c} {q} {d}))", "(({a} {o} {b}) {p} {c}) {q} {d}",
                 "{a} {o} ({b} {o} {c})", "{a} * ({b} * {c}) + ({d} + ({a} + {b}))"]
        return "(int) (" + r.choice(forms).format(a=a(), b=a(), c=a(), d=a(), o=o(), p=o(), q=o()) + ")"

    def chain(self):
        """a flat chain of 2..6 binary operators over atoms and prefix / postfix / cast operands with NO parentheses (optionally under a
        conditional and an assignment): what it means is entirely up to C's precedence and associativity rules, i.e. up to the compiler"""
        r = self.r

        def operand():
            k = r.randint(0, 9)
            a = r.choice(INT_ATOMS)
            if k == 0:
                return r.choice(["-", "~", "!", "+"]) + " " + a
            if k == 1:
                return f"({r.choice(['long', 'unsigned', 'char', 'T'])}) {a}"
            if k == 2:
                return r.choice(INT_LVALUES) + r.choice(["++", "--"])
            if k == 3:
                return "sizeof " + r.choice(["a", "b", "loc", "g1", "s1", "s1.a", "larr", "garr[1]", "*ip", "t1", "msg", "1", "'a'", "sp->arr", "un"])
            return a
        ops = BIN + ["/", "%", ">>"]
        e = operand()
        for _ in range(r.randint(2, 6)):
            o = r.choice(ops)
            rhs = operand()
            e += f" {o} " + (f"({rhs} | 1)" if o in ("/", "%") else rhs)
        if r.random() < 0.3:
            e = f"{e} ? {self.chain() if r.random() < 0.3 else operand()} : {operand()} {r.choice(ops[:13])} {operand()}"
        if r.random() < 0.3:
            e = f"{r.choice(INT_LVALUES)} {r.choice(ASSIGN)} {r.choice(INT_LVALUES)} {r.choice(ASSIGN)} {e}"
        return e

    def op(self, d, unary=False):
        """an operand.  Atoms stay bare; assignments and conditionals are parenthesised (they are not valid operands otherwise);
        every other operand is left WITHOUT parentheses half of the time, so that the grouping the C compiler sees depends on
        precedence and associativity - the compiler, not this generator, is the judge of what the text means.  The operand of a
        prefix operator or cast is parenthesised unless atomic (a binary operand there would change the expression's type
        validity, e.g. -a = b)."""
        e, kind = self.expr_k(d)
        if kind == "atom":
            return e
        if kind == "assign" or unary or self.r.random() < 0.5:
            return f"({e})"
        return e

    def stmt(self, d, in_loop=False, in_switch=False):
        r = self.r
        if d <= 0:
            k = r.randint(0, 4)
            if k == 0:
                return ";"
            if k == 1 and (in_loop or in_switch):
                return "break;"
            if k == 2 and in_loop:
                return "continue;"
            if k == 3:
                return f"return {self.expr(1)};"
            return f"{self.expr(2)};"
        k = r.randint(0, 11)
        if k == 0:
            return "{ " + " ".join(self.item(d - 1, in_loop, in_switch) for _ in range(r.randint(0, 3))) + " }"
        if k == 1:
            return f"if ({self.expr(1)}) {self.stmt(d - 1, in_loop, in_switch)}"
        if k == 2:
            # the then-branch of an if WITH else: in braces, or bare when it cannot capture the else (C99 6.8.4.1p3)
            form = r.randint(0, 4)
            if form == 0:
                th = self.closed(d - 1, in_loop, in_switch)
            elif form == 1:
                th = f"if ({self.expr(1)}) {self.closed(d - 1, in_loop, in_switch)} else {self.closed(d - 1, in_loop, in_switch)}"
            elif form == 2:
                th = f"if ({self.expr(1)}) {self.closed(d - 1, in_loop, in_switch)} else {{ }}"
            else:
                th = "{ " + self.stmt(d - 1, in_loop, in_switch) + " }"
            el = r.choice(["{ }", self.stmt(d - 1, in_loop, in_switch), self.stmt(d - 1, in_loop, in_switch)])
            return f"if ({self.expr(1)}) {th} else {el}"
        if k == 3:
            return f"while ({self.expr(1)}) {self.stmt(d - 1, True, in_switch)}"
        if k == 4:
            return f"do {self.stmt(d - 1, True, in_switch)} while ({self.expr(1)});"
        if k == 5:
            init = r.choice(["", "a = 0", "int i = 0", "int i = 0, j = 1"])
            return f"for ({init}; {r.choice(['', self.expr(1)])}; {r.choice(['', 'a++', 'a++, b--'])}) {self.stmt(d - 1, True, in_switch)}"
        if k == 6:
            cases = []
            used = set()
            for _ in range(r.randint(1, 3)):
                v = r.randint(0, 9)
                if v in used:
                    continue
                used.add(v)
                lab = f"case {v}:" + (f" case {v + 10}:" if r.random() < 0.3 else "")
                cases.append(lab + " " + " ".join(self.stmt(d - 1, in_loop, True) for _ in range(r.randint(1, 2))))
            if r.random() < 0.6:
                cases.insert(r.randint(0, len(cases)), "default: " + self.stmt(d - 1, in_loop, True))
            return f"switch ({self.expr(1)}) {{ " + " ".join(cases) + " }"
        if k == 7:
            self.labels += 1
            return f"L{self.labels}: {self.stmt(d - 1, in_loop, in_switch)}"
        if k == 8 and self.labels:
            return f"goto L{r.randint(1, self.labels)};"
        return self.stmt(0, in_loop, in_switch)

    def closed(self, d, in_loop=False, in_switch=False):
        """a statement that does not end in an if without else"""
        r = self.r
        k = r.randint(0, 5)
        if k == 0:
            return f"{self.expr(2)};"
        if k == 1:
            return "{ " + " ".join(self.item(max(d - 1, 0), in_loop, in_switch) for _ in range(r.randint(0, 2))) + " }"
        if k == 2:
            return f"do {self.stmt(max(d - 1, 0), True, in_switch)} while ({self.expr(1)});"
        if k == 3:
            return f"while ({self.expr(1)}) {self.closed(max(d - 1, 0), True, in_switch)}"
        if k == 4:
            return f"if ({self.expr(1)}) {self.closed(max(d - 1, 0), in_loop, in_switch)} else {self.closed(max(d - 1, 0), in_loop, in_switch)}"
        return ";"

    def item(self, d, in_loop=False, in_switch=False):
        r = self.r
        if r.random() < 0.25:
            n = r.randint(0, 99999)
            return r.choice([f"int v{n} = {self.expr(1)};", f"const long c{n} = 3, *pc{n} = &c{n};", f"static T st{n};",
                             f"struct S ls{n} = {{ .a = {self.expr(1)}, .arr = {{ [1] = 2 }} }};", f"int m{n}[2][3] = {{ {{ 1, 2 }}, {{ [2] = 3 }} }};",
                             f"enum E en{n} = K1;", f"register unsigned char rc{n} = 'q';", f"int (*lf{n})(int, int) = two;",
                             f"volatile T vt{n} = (T) l1;", f"union U lu{n} = {{ .f = 1.5f }};",
                             f"{{ struct In {{ long q[2]; char r; }} w{n}; loc += sizeof w{n} + sizeof(struct In); }}",
                             f"{{ enum E {{ K0 = 40, K9 }} e{n} = K9; loc += e{n} + K0; }}",
                             f"struct S d{n} = {{ .a = (a++, a + 1), .b = 2 }};", f"int q{n}[2] = {{ (b--, b), [1] = (a = 2) }};",
                             f"const char *ls{n} = \"0123456789012345678901234567890123456789012345678901234567890\\x41\\102\\n{n}\"; loc += ls{n}[62] + sizeof \"01234567890123456789012345678901234567890123456789012345678901234567\\t\";"])
        return self.stmt(d, in_loop, in_switch)

    def function(self, name, depth):
        self.labels = 0
        body = " ".join(self.item(depth) for _ in range(self.r.randint(1, 5)))
        return (f"{self.r.choice(['', 'static ', 'inline static ', 'static inline ', 'extern '])}int {name}(int a, int b) {{ int loc = a; int larr[3] = {{ 1, 2, 3 }}; int *ip = &loc; T t1 = 0; "
                f"{body} return loc + larr[0] + *ip + t1; }}")

    def program(self, nfun=2, depth=2):
        # the (often static / inline) functions are all used, so that their storage class and specifiers leave a trace
        user = "int use_all(int a, int b) { return " + " + ".join(f"fn{i}(a, b + {i})" for i in range(nfun)) + "; }"
        return "\n".join(PRELUDE + [self.function(f"fn{i}", depth) for i in range(nfun)] + [user]) + "\n"


# hand-written, self-contained, compilable programs: constructs whose meaning depends on details the random generator
# reaches rarely (unnamed bit-fields, ?: grouping, for-init lists, casts as operands, comma expressions in brackets, ...)
SEMZOO = [
    # qualified type names without declarator: compound literals (a const one lives in read-only storage), sizeof, casts, _Alignof
    "struct point { int x; int y; };\nconst struct point *gp = &(const struct point){3, 4};\nconst int *gq = (const int[]){1, 2, 3};\nint *gm = (int[]){7, 8};\nint qsz = sizeof(const int) + sizeof(volatile char) + _Alignof(const long);\nint quse(void){ const struct point *lp = &(const struct point){1, 2}; volatile int v = (volatile int)5; return gp->x + gq[1] + gm[0] + lp->y + v + (const int)3; }\n",
    "int hx(int i, int j){ int a = (0xFE + i) << 2; int b = (0x1e - j) & 3; int c = (0xE + 1) * i; int d = (i + 0xAE) >> (0x2E - j); int e = 1e1 + 0x1E + i; return a + b + c + d + e + ((0xfE - 1) | (0Xe + j)); }\n",
    # unary plus and minus whose integer promotion is observable, unary operators in front of casts, sizeof of parenthesised operands
    "char uc = 1;\nshort ush = 2;\nstruct UB { unsigned b : 3; int w; } ub = { 5, 6 };\nint up1 = sizeof(+uc);\nint up2 = sizeof(+ush);\nint up3 = sizeof(-uc);\nint up4 = sizeof(~ush);\nint up5 = sizeof(+ub.b);\nint up6 = _Alignof(long) + sizeof(+(char)3);\nint upf(void){ char a[3] = {1, 2, 3}; return (int)sizeof(+uc) + (int)sizeof(uc) + (int)sizeof(+a[1]) + (int)sizeof(+ +uc) + (+uc) + +ush + - -ush + (int)sizeof(!uc) + (int)sizeof(+*a); }\n",
    # designator chains that mix members and indices in every order
    "struct P { int a; int b[2]; struct { int c[2]; } d; };\nstruct Q { struct P arr[2]; int m[2][2]; };\nstruct Q q = { .arr[1].b[0] = 3, .m[1][0] = 7, .arr[0].d.c[1] = 2 };\nstruct P p = { .a = 1, .b[1] = 2, .d.c[0] = 4 };\nint g[2][3] = { [1][2] = 9, [0] = { 1 } };\nstruct O { struct P in[3]; } o = { .in[2].b[1] = 5, .in[0].a = 1, .in[1].d.c[0] = 6 };\nint dz(void){ struct Q l = { .m[0][1] = 1, .arr[1].a = q.arr[1].b[0] }; return l.m[0][1] + l.arr[1].a + p.b[1] + g[1][2] + o.in[2].b[1]; }",
    # empty struct / union bodies (GNU C) next to references to incomplete and complete types
    "struct E {} e;\nunion EU {} eu;\nstruct F { struct E inner; int x; } f1 = { .x = 2 };\nstruct Fwd;\nstruct Fwd *pf;\nint ez(void){ struct L {} l; return (int)sizeof e + (int)sizeof eu + (int)sizeof l + (int)sizeof(struct F) + f1.x + (pf != 0); }",
    # callees, subscripted and dereferenced bases that are not simple nodes
    "int k1(int x){ return x + 1; }\nint k2(int x){ return x * 2; }\nint (*tab[2])(int) = { k1, k2 };\nint (**pt)(int) = tab;\nint cz(int c, int (*fp)(int)){ int (*q)(int) = fp; return (*fp)(1) + (c ? k1 : k2)(c) + (*pt++)(2) + (*tab[1])(3) + (**pt)(4) + (&k1)(5) + (q = k2)(6) + (*(c ? &q : &fp))(7); }",
    # comma expressions wherever an assignment-expression is expected (both generator configurations)
    "int m1(int a, int b){ int x; x = (a++, a + 2); x += (b, a); return x; }\nint v2(int a, int b){ return a + b; }\nint m2(int a, int b){ return v2((a, b), 3) + v2(1, (a = 2, b)) + ((a = 1, b = 2), a + b); }\nint m3(int a, int b){ int arr[3] = { (a, b), 2, (b, a) }; return arr[(a, 0)] + (a ? (a, b) : (b, a)); }",
    # integer constants in every base with every suffix spelling
    "unsigned long z1 = 1U + 2u + 0xFFUL + 0xffLu + 077u + 0B1UL + 0b11 + 5lu + 6LLU + 7ull;\nlong long z2 = 1LL << 40 | 0B1UL << 33 | 0x1LL << 35;\nint zz(void){ return (int)(z1 + z2) + (int)sizeof(1U) + (int)sizeof(1UL) + (int)sizeof(0b1LL) + (-1 < 0U) + (-1 < 0B0U) + (-1L < 0b0UL); }",
    # K&R definitions, file-scope static assertions, do bodies without braces, empty initializers
    "int kr(a, b) long b; int a; { return a + (int)sizeof b; }\nint kr2(c, p, n) char c; int n; double *p; { return c + n + (int)*p; }\n_Static_assert(sizeof(long) >= 4, \"long\");\nint dw(int n){ int s = 0; do n--; while (n > 0); do s++, n++; while (n < 3); return s; }\nstruct Z { int a; int b[2]; } ze = {};\nint za[3] = {};\nint zi(void){ struct Z l = { .b = {} }; int zl[] = { 1, 2 }; return ze.a + za[1] + l.b[1] + (int)sizeof zl + kr(1, 2L); }",

    # unnamed bit-fields decide the layout
    "struct S { unsigned a:3; unsigned :5; unsigned b:4; unsigned :0; unsigned c:2; } s = {1, 2, 3};\nint f(void){ return s.b + s.c + (int)sizeof s; }\nstruct T { char c; int :0; char d; int : 7; short e; } t = {1, 2, 3};\nint g(void){ return t.d + t.e; }",
    # conditional operator grouping
    "int g1(int a,int b,int c,int d,int e){ return (a?b:c)?d:e; }\nint g2(int a,int b,int c,int d,int e){ return a?b:(c?d:e); }\nint g3(int a,int b,int c,int d,int e){ return a?(b?c:d):e; }\nint g4(int a,int b,int c){ return (a, b) ? c : (b, a); }\nint g5(int a,int b,int c){ int x; x = a ? b : c; return (x = a) ? b : c; }",
    # for-init declarations with several declarators of one base type
    "int h1(int n){ int s = 0; for (unsigned int i = 0, end = n; i < end; i++) s += i; return s; }\nint h2(int n){ int s = 0; for (long long index = 7, x = 2; index < n; index += x) s++; return s; }\nint h3(int n){ int x = 3; for (unsigned int i = 0, index = 7; i < index; i++) x++; return x; }",
    # casts as operands
    "int c1(double d, int i){ return (int)d * i + (int)(d + i) - (char)i / (short)d; }\nint c2(int *p, long l){ return *(int *)l + (int)(long)p + -(int)l + !(int)l + ~(int)l; }\nlong c3(int i){ return (long)i << 3 | (long)(i >> 1); }\nint c4(char *p){ return (int)*p++ + (int)p[1] + (int)-*p; }",
    # unary / postfix mixtures
    "int u1(int *p, int i){ return *p++ + (*p)++ + ++*p + *++p - -i - - -i + +i - +-i; }\nint u2(int a, int b){ return a - -b + a + +b - (a-- - --b) + (a++ + ++b); }\nint u3(int a){ return !a + !!a + ~a + ~~a + -~a + ~-a; }\nint u4(int **pp){ return **pp + *pp[0] + (*pp)[1] + *(*pp + 1) + **(pp + 1); }",
    # precedence of every binary operator pair that matters
    "int b1(int a,int b,int c){ return a - (b - c) + (a - b) - c + a / (b / c) + a / b / c + a % (b * c) + a * (b % c); }\nint b2(int a,int b,int c){ return (a & b) == c | a & (b == c) | (a | b) ^ c | a ^ (b & c) | (a << b) + c | a << (b + c); }\nint b3(int a,int b,int c){ return (a || b) && c || a && (b || c) || (a < b) == (b < c) || a < (b == c); }\nint b4(int a,int b,int c){ return (a, b, c) + (a = b, c) + (a += b -= c); }",
    # member access, arrays of structs, function pointers
    "struct P { int x, y; struct P *next; int arr[3]; }; struct P ps[2], *pp = ps;\nint m1(void){ return (*pp).x + pp->y + (*pp->next).x + pp->next->arr[1] + (&ps[1])->y + (*(pp + 1)).x + ps[0].arr[2]; }\nint (*fp)(int); int (*fpa[2])(int); int (*(*fpp)(void))(int);\nint m2(int i){ return fp(i) + (*fp)(i) + fpa[1](i) + (*fpa[0])(i) + fpp()(i) + (*(*fpp)())(i); }",
    # designated initialisers, compound literals, strings
    "struct Q { int a; int b[3]; struct { int c, d; } in; }; struct Q q1 = { .b = {1, [2] = 3}, .in.d = 4, .a = 5 }, q2 = { 1, {2, 3}, {4} };\nint ar[] = { [3] = 1, [1] = 2, 7, [0] = 9 };\nchar s1[] = \"a\" \"b\", s2[5] = \"xy\", *s3 = \"\\x41\\101\\n\";\nint d1(void){ return ((struct Q){ .a = 1 }).a + ((int[]){1, 2, 3})[1] + sizeof ((char[]){\"abc\"}) + q1.in.d + ar[2] + s1[1] + s2[3]; }",
    # enumerators, sizeof, alignment
    "enum E { A = 1, B = A << 2, C = (A + 2), D = sizeof(int) > 2 ? 3 : 4, F };\n_Alignas(16) int al1; _Alignas(double) char al2; struct AL { char c; _Alignas(8) int i; }; struct AL al3;\nint e1(void){ return A + B + C + D + F + sizeof(enum E) + _Alignof(struct AL) + sizeof al3 + sizeof(int[B]) + sizeof(int (*)[3]); }",
    # switch / case ranges of statements, labels, goto, do-while
    "int w1(int x){ int r = 0; switch (x) { case 1: case 2: r = 1; case 3: { r += 2; break; } default: r = 4; case -1: r++; } return r; }\nint w2(int n){ int i = 0; again: if (i < n) { i++; goto again; } do i--; while (i > 0 && n--); while (n) { if (n & 1) break; else n >>= 1; continue; } return i; }\nint w3(int a, int b){ if (a) if (b) return 1; else return 2; else if (b) return 3; return 4; }",
    # qualifiers, storage classes, pointers to pointers, arrays of pointers
    "static const volatile int cv = 3; extern int ex; static int *const cp = 0; const int *pc; int *const *volatile cpv;\nint *ap[3]; int (*pa)[3]; int **ppi; int *(*pfa[2])(int *, char **);\nint q1(void){ return cv + (cp != 0) + (pc == 0) + sizeof ap + sizeof pa + sizeof *pa + sizeof pfa; }\nstatic inline int q2(register int r){ auto int a = r; return a; }\n_Noreturn void die(void); _Thread_local int tl = 1; static _Thread_local int stl;",
    # K&R definition, variadic, array parameters
    "int k1(a, b) int a; char *b; { return a + *b; }\nint k2(int n, ...);\nint k3(int a[static 3], int b[const], int n, int c[n][n]){ return a[0] + b[1] + c[1][1]; }\nint k4(int (*f)(int, ...), int x){ return f(x, 1, 2); }",
    # comma expressions in every bracketed position
    "int z1(int n){ int a[(n, 3)]; a[(n, 0)] = (n, 1); return a[0] + sizeof(int[(n, 2)]); }\nint k(int, int, int);\nint z2(int x){ switch (x) { case (1 + 2): return 1; } return (x, x + 1); }\nint z3(int x, int y){ return k(x, (y, x), y) + k((x, y), x, (x = y, y)); }",
    # integer / floating / character constants
    "long long n1 = 1u + 1ul + 1lu + 1ull + 1LL + 0x1UL + 0b101 + 017 + 0 + 0x0;\ndouble n2 = 0x1p-3 + 0x.8p1 + 1.5f + 1.e3L + .5 + 1e+3 + 1E-2f;\nint n3 = 'a' + '\\n' + '\\x41' + '\\377' + L'a' + '\\'' + '\\\\' + '\"' + '\\0' + 'ab';\nint n4(void){ return -1 - -1 + - -1 + 1 - 1u + -0x10 + -010 + (1.0 > 0); }",
    # typedef scoping
    "typedef int T; typedef T *PT; typedef T AT[3]; typedef T FT(T);\nT t1(T a, PT p, AT arr, FT *f){ T T2 = a; { typedef char T; T c = 1; T2 += c + sizeof(T); } return T2 + *p + arr[0] + f(a) + sizeof(T); }\nint t2(void){ int T = 2; return T * T; }\nstruct TS { T T; T u; }; T t3(struct TS s){ return s.T + s.u; }",
    # round 6: constructs whose meaning the compiler decides (storage + function specifiers on used functions, empty else blocks,
    # long strings, tags redefined in inner scopes, comma expressions as initialiser values, pragma blocks, ...)
    # storage class together with function specifiers, the functions being USED (an unused static inline leaves no trace)
    "static inline int sq(int x){ return x * x; }\nextern inline int cube(int x){ return x * x * x; }\ninline int dbl(int x){ return x + x; }\nstatic int keep(int x){ return x - 1; }\nint use(int v){ return sq(v) + cube(v) + dbl(v) + keep(v); }\nstatic _Noreturn void die(void){ for (;;) ; }\nvoid call_die(int c){ if (c) die(); }",
    # empty blocks as else branches, dangling-else shapes
    "int e1(int a, int b, int x, int y){ if (a) if (b) x = 1; else { } else y = 2; return x + y; }\nint e2(int a, int b, int x){ if (a) { if (b) x = 1; } else x = 2; return x; }\nint e3(int a, int b, int x){ if (a) if (b) x = 1; else x = 2; return x; }\nint e4(int a, int x){ if (a) { } else { x = 3; } while (a) { } for (;;) { break; } do { } while (0); return x; }\nint e5(int a, int b, int x){ if (a) { ; } else if (b) { } else { x = 4; } return x; }",
    # long string literals with escapes around every multiple of 8 between 56 and 80 characters
    "char l1[] = \"0123456789012345678901234567890123456789012345678901234567890\\x41\\x42\\101\\102\\n\\t0123456789\";\nchar l2[] = \"01234567890123456789012345678901234567890123456789012345678901\\x41\\x42rest of a long enough string to pass seventy-two characters\";\nchar l3[] = \"aaaaaaaaaaaaaaaaaaaaaaaaaaaaaaaaaaaaaaaaaaaaaaaaaaaaaaaaaaaaaaa\\\\\\\"bbbbbbbbbbbbbbbbbbbbbbbbbbbbbbbbbbbbbbbbbbbbbbbbbbbbbbbbbbbbb\\0001c\";\nint ls(void){ return sizeof l1 + sizeof l2 + sizeof l3; }",
    # the same tag defined in different scopes
    "struct S { int a; };\nint t1(void){ struct S { char c[9]; } in; struct S *p = &in; return sizeof(struct S) + sizeof in + sizeof *p; }\nint t2(void){ return sizeof(struct S); }\nint t3(void){ enum E { A = 5 } e = A; { enum E { A = 7, B } f = B; return e + f + A; } }\nint t4(void){ union U { int i; char c[8]; } u; { union U { short s; } v; return sizeof u + sizeof v; } }",
    # comma expressions and assignments as initialiser values, designated and positional
    "struct D { int x, y, z; };\nint d1(int a){ struct D d = { .x = (a++, a + 1), .z = 9 }; return d.x + d.y + d.z + a; }\nint d2(int a){ int arr[3] = { (a++, a), [2] = (a += 2, a * 2) }; return arr[0] + arr[1] + arr[2]; }\nint d3(int a){ struct D d = { (a, 1), (a = 5), a ? 1 : 2 }; return d.x + d.y + d.z; }",
    # pragmas in front of sub-statements and in blocks
    "int p1(int a, int b, int x){ if (a) {\n#pragma foo\n if (b) x = 1; } else x = 2; return x; }\nint p2(int a, int x){ while (a--)\n#pragma unroll\n x++; return x; }\nint p3(int a, int b, int x){ if (a)\n#pragma p\n if (b) x = 1; else x = 2; return x; }\nint p4(int x){\n#pragma one\n#pragma two\n { x++; }\n return x; }",
    # labels, case ranges of statements, fall through
    "int s1(int x){ int r = 0; switch (x) { case 1: r++; case 2: r += 2; break; case 3: case 4: { r = 7; } default: r--; } return r; }\nint s2(int x){ int r = 0; skip: ; r++; if (r < x) goto skip; end: return r; }\nint s3(int x){ switch (x) case 1: x = 5; return x; }\nint s4(int x){ switch (x) { default: x = 1; break; case 0: x = 2; } return x; }",
    # loops: every for clause absent / present, declarations in for-init, nested loops, continue
    "int f1(int n){ int s = 0; for (int i = 0; i < n; i++) for (int j = i; j < n; j++) { if (j & 1) continue; s += j; } return s; }\nint f2(int n){ int i = 0; for (; i < n;) i++; for (;;) { if (i-- < 0) break; } for (i = 0; ; i++) if (i > n) break; return i; }\nint f3(int n){ int s = 0, i; for (i = 0, s = 1; i < n; i++, s *= 2) ; return s; }",
    # pointers, arrays, function pointers in declarations with initialisers
    "int g0[4] = {1, 2, 3, 4}; int *g1 = g0 + 1; int (*g2)[4] = &g0; int *g3[2] = { g0, g0 + 2 }; int **g4 = g3;\nint gf(int a){ return a; } int (*g5)(int) = gf; int (*g6[2])(int) = { gf, gf }; int (*(*g7)[2])(int) = &g6;\nint gu(void){ return *g1 + (*g2)[2] + *g3[1] + **g4 + g5(1) + g6[1](2) + (*g7)[0](3); }",
    # integer promotions, casts, sizeof of expressions vs types
    "int c1(unsigned char u, signed char s, short h, long l){ return (u << 1) + (s >> 1) + (int)h * (long)2 + (char)l + (unsigned)u / 3u + sizeof(u + s) + sizeof (long) + sizeof u; }\nlong c2(int a, int b){ return (long)a * b + (long)(a * b) + (a < b) + (a == b) * 2L + -a % b; }\ndouble c3(int a, float f){ return a / 2 + a / 2.0 + f * a + (double)a / 3 + (int)f % 2; }",
    # typedefs of function and array types, qualified
    "typedef int F(int); typedef int A3[3]; typedef const char *CS; typedef struct N { struct N *next; int v; } N; typedef N *PN;\nF h1; int h1(int x){ return x; } A3 h2 = {1, 2, 3}; CS h3 = \"cs\"; N h4 = { 0, 4 }; PN h5 = &h4;\nint h6(void){ F *fp = h1; const A3 *pa = &h2; return fp(1) + (*pa)[1] + h3[0] + h5->v + sizeof(A3) + sizeof(N); }",
    # conditional expressions with side effects, logical operators short-circuit
    "int q1(int a, int b){ return a ? b++ : b--; }\nint q2(int a, int b, int c){ return a && b || c && !a; }\nint q3(int a, int b){ return (a || (b = 2)) + (a && (b = 3)) + b; }\nint q4(int a, int b, int c){ return a ? b ? 1 : 2 : c ? 3 : 4; }\nint q5(int a, int b){ return (a > b ? a : b) - (a < b ? a : b); }",
    # compound assignment with every operator, increments in subscripts
    "int o1(int a, int b){ a += b; a -= b; a *= b; a /= b; a %= b; a <<= 2; a >>= 1; a &= b; a |= b; a ^= b; return a; }\nint o2(int *p, int i){ p[i++] = i; p[--i] += 2; *p++ = 1; (*p)++; ++*p; return *--p + p[i]; }\nint o3(int a){ return a++ + ++a - a-- - --a; }",
    # bit-fields and unions observed through layout
    "struct B { unsigned a:1, b:2, :0, c:3; signed d:4; int e; } bb = { 1, 2, 3, -1, 5 };\nunion UU { struct { unsigned lo:4, hi:4; } n; unsigned char byte; } uu = { { 3, 4 } };\nint bf(void){ bb.b = 1; uu.n.hi = 2; return bb.a + bb.b + bb.c + bb.d + bb.e + uu.byte + sizeof bb + sizeof uu; }",
]
