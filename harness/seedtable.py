"""Print the markdown table of kept seeded changes from seeded/*/meta.json (used for DESIGN.md section 11)."""
import json, os, sys
root = os.path.join(os.path.dirname(os.path.dirname(os.path.abspath(__file__))), "seeded")
rows = []
for d in sorted(os.listdir(root)):
    mp = os.path.join(root, d, "meta.json")
    if not os.path.exists(mp):
        continue
    m = json.load(open(mp))
    first = (m.get("needs") or "").strip().split("\n")[0][:110]
    det = ", ".join(m.get("detected_by") or []) or "(none)"
    how = set()
    for c, r in (m.get("checks") or {}).items():
        ex = r.get("replay_excerpt") or {}
        for v in r.get("violation_lines") or []:
            how.add("no-failing-input-found" if v.rstrip().endswith("no-failing-input-found") else "failing input")
    rows.append((d, first.replace("|", "/"), det, ", ".join(sorted(how))))
print("| id | change (first line of the agent's note) | reported by | replay |")
print("|---|---|---|---|")
for r in rows:
    if len(sys.argv) > 1 and sys.argv[1] not in r[0]:
        continue
    print("| " + " | ".join(r) + " |")
