"""Tie between the LANGUAGE of the round-trip theorems (FuncTrip.edecl / StmtTrip.st / RoundTripX.ex, proofs/GenProg.v) and the
implementation: random members of the language are written as Coq terms, the specification functions of the theorems
(`utext` - the text the generator is proved to print, `unit_toks` - the tokens the parser is proved to parse back, `unit_emb` -
the tree) are evaluated by the kernel (`Eval vm_compute` in one coqc run), and the real CParser / CLexer / CGenerator are run on
that text:  parse(utext u) must be the tree unit_emb u, CGenerator must print utext u again (both configurations), and the
lexer must deliver exactly unit_toks u (kinds and spellings).  The theorems are about the models; this checks that their
statements speak about what the code does."""
import os, re, subprocess, sys

HERE = os.path.dirname(os.path.abspath(__file__))
VERIF = os.path.dirname(HERE)
COQ = os.path.join(VERIF, "coq")

IDS = ["a", "b", "c", "n", "p", "idx", "total", "x1", "y_2"]
BINOPS = ["*", "/", "%", "+", "-", "<<", ">>", "<", "<=", ">", ">=", "==", "!=", "&", "^", "|", "&&", "||"]
UNOPS = ["-", "+", "!", "~", "*", "&"]
ASGOPS = ["=", "+=", "-=", "*=", "/=", "%=", "<<=", ">>=", "&=", "^=", "|="]
TYPES = [[("K_INT", "int")], [("K_UNSIGNED", "unsigned"), ("K_LONG", "long")], [("K_CHAR", "char")], [("K_LONG", "long"), ("K_LONG", "long"), ("K_INT", "int")],
         [("K_DOUBLE", "double")], [("K_UNSIGNED", "unsigned")], [("K_SHORT", "short")], [("K_FLOAT", "float")], [("K_SIGNED", "signed"), ("K_CHAR", "char")]]
CONSTS = [("K_INT_CONST_DEC", "1", "int"), ("K_INT_CONST_DEC", "42", "int"), ("K_INT_CONST_OCT", "0", "int"), ("K_INT_CONST_HEX", "0x1F", "int"),
          ("K_INT_CONST_DEC", "7u", "unsigned int"), ("K_INT_CONST_DEC", "3L", "long int"), ("K_INT_CONST_DEC", "9ul", "unsigned long int"),
          ("K_FLOAT_CONST", "1.5", "double"), ("K_FLOAT_CONST", "2.0f", "float"), ("K_FLOAT_CONST", "1e3L", "long double"), ("K_CHAR_CONST", "'x'", "char")]


def cs(s):
    return '(s2l "' + s.replace('"', '""') + '")'


def cty(ty):
    return "[" + "; ".join(f"({k}, {cs(v)})" for k, v in ty) + "]"


def gen_ex(r, d, comma_ok=True):
    """a well-formed expression (RoundTripX.wf) as a Coq term"""
    if d <= 0 or r.random() < 0.25:
        if r.random() < 0.6:
            return f"XId {cs(r.choice(IDS))}"
        k, v, t = r.choice(CONSTS)
        return f"XConst {k} {cs(v)} {cs(t)}"
    c = r.randrange(13 if comma_ok else 12)
    sub = lambda **kw: "(" + gen_ex(r, d - 1, **kw) + ")"
    if c == 0:
        return f"XBin {cs(r.choice(BINOPS))} {sub()} {sub()}"
    if c == 1:
        return f"XUn {cs(r.choice(UNOPS))} {sub()}"
    if c == 2:
        return f"XPre {cs(r.choice(['++', '--']))} {sub()}"
    if c == 3:
        return f"XPost {cs(r.choice(['++', '--']))} {sub()}"
    if c == 4:
        return f"XSizeof {sub()}"
    if c == 5:
        return f"XIdx {sub()} {sub()}"
    if c == 6:
        # not on a constant: `42.n` lexes as a floating constant (the listed finding C07 int_const_member) - the text-to-token step is
        # outside the theorems (their hypothesis is the token sequence)
        b = gen_ex(r, d - 1)
        while b.startswith("XConst"):
            b = gen_ex(r, d - 1)
        return f"XMem ({b}) {cs(r.choice(['.', '->']))} {cs(r.choice(IDS))}"
    if c == 7:
        return f"XCall {sub()} [" + "; ".join(gen_ex(r, d - 1) for _ in range(r.randrange(4))) + "]"
    if c == 8:
        return f"XCond {sub()} {sub()} {sub()}"
    if c == 9:
        # the left side of an assignment: neither an assignment nor a comma expression (wf)
        l = gen_ex(r, d - 1, comma_ok=False)
        while l.startswith("XAsg"):
            l = gen_ex(r, d - 1, comma_ok=False)
        return f"XAsg {cs(r.choice(ASGOPS))} ({l}) {sub()}"
    if c == 10:
        return f"XCast {cty(r.choice(TYPES))} {sub()}"
    if c == 11:
        return f"XSizeofT {cty(r.choice(TYPES))}"
    return "XComma [" + "; ".join(gen_ex(r, d - 1) for _ in range(r.randrange(2, 4))) + "]"


def opt_ex(r, d):
    return f"(Some ({gen_ex(r, d)}))" if r.random() < 0.6 else "None"


def gen_st(r, d, block_item=False):
    """a well-formed statement (StmtTrip.swfd true); declarations only as block items"""
    if block_item and r.random() < 0.3:
        return f"SDecl {cty(r.choice(TYPES))} {cs(r.choice(IDS))} {opt_ex(r, 2)}"
    if d <= 0 or r.random() < 0.3:
        c = r.randrange(6)
        return [f"SExpr ({gen_ex(r, 2)})", "SEmpty", f"SReturn {opt_ex(r, 2)}", "SBreak", "SContinue", f"SGoto {cs(r.choice(IDS))}"][c]
    c = r.randrange(7)
    sub = lambda: "(" + gen_st(r, d - 1) + ")"
    if c == 0:
        # the then-branch of an if with else must not end in an open if: use a block there
        if r.random() < 0.5:
            return f"SIf ({gen_ex(r, 2)}) {sub()} None"
        return f"SIf ({gen_ex(r, 2)}) (SBlock [{gen_st(r, d - 1, True)}]) (Some {sub()})"
    if c == 1:
        return f"SWhile ({gen_ex(r, 2)}) {sub()}"
    if c == 2:
        return f"SDo {sub()} ({gen_ex(r, 2)})"
    if c == 3:
        return f"SFor {opt_ex(r, 2)} {opt_ex(r, 2)} {opt_ex(r, 2)} {sub()}"
    if c == 4 or c == 5:
        return "SBlock [" + "; ".join(gen_st(r, d - 1, True) for _ in range(r.randrange(4))) + "]"
    return f"SLabel {cs(r.choice(['again', 'out', 'l1']))} {sub()}"


def gen_unit(r):
    ds = []
    for _ in range(r.randrange(1, 5)):
        if r.random() < 0.4:
            ds.append(f"EObj {cty(r.choice(TYPES))} {cs(r.choice(['g0', 'g1', 'counter', 'tab']))} {opt_ex(r, 2)}")
        else:
            items = "; ".join(gen_st(r, 2, True) for _ in range(r.randrange(5)))
            ds.append(f"EFun {cty(r.choice(TYPES + [[('K_VOID', 'void')]]))} {cs(r.choice(['main', 'f', 'g', 'step']))} [{items}]")
    return "[" + "; ".join(ds) + "]"


PRELUDE = """From Coq Require Import String List NArith ZArith Bool.
Import ListNotations.
From PV Require Import Regex Base AstDefs AstSpec AstImpl NodeModel PyRepr LexTables ParserTables RoundTripX StmtTrip FuncTrip GenStmt GenProg Api.
Fixpoint showu (fuel: nat) (v: value unit) : str :=
  match fuel with
  | O => s2l "<deep>"
  | S f =>
    match v with
    | VNone => s2l "None"
    | VStr s => py_repr s
    | VList l => [91%N] ++ join_str [44%N] (map (showu f) l) ++ [93%N]
    | VNode c fs co => [40%N] ++ cls_name c ++ concat_str (map (fun x => 32%N :: showu f x) fs) ++ [41%N]
    end
  end.
Definition US : N := 31%N.
Definition RSs : N := 30%N.
Definition out (u: list edecl) : str :=
  utext false u ++ [US] ++ utext true u ++ [US] ++ showu 400 (unit_emb false u) ++ [US] ++
  join_str [29%N] (map (fun kv => kind_name (fst kv) ++ [28%N] ++ snd kv) (unit_toks false u)) ++ [RSs].
"""


def evaluate(units, workdir):
    os.makedirs(workdir, exist_ok=True)
    path = os.path.join(workdir, "LangCases.v")
    with open(path, "w") as f:
        f.write(PRELUDE)
        for i, u in enumerate(units):
            f.write(f"Definition case{i} : list edecl := {u}.\nEval vm_compute in (out case{i}).\n")
    p = subprocess.run(["bash", "-c", f"ulimit -s unlimited 2>/dev/null; timeout 600 coqc -q -R {COQ} PV {path}"], capture_output=True, text=True, cwd=workdir)
    if p.returncode != 0:
        return None, (p.stdout + p.stderr)[-2000:]
    recs = []
    for chunk in p.stdout.split("     = ")[1:]:
        body = chunk[:chunk.rindex(": str")] if ": str" in chunk else chunk
        s = "".join(chr(int(x)) for x in re.findall(r"\d+", body))
        recs.append(s.rstrip("\x1e").split("\x1f"))
    return recs, None


def check_unit(rec):
    """None if the implementation does what the theorems' statements say on this member of the language, else a description"""
    from pycparser import c_parser, c_generator, c_lexer
    from parsecorr import show_ast
    text0, text1, tree, toks = rec
    try:
        a0 = c_parser.CParser().parse(text0, "f.c")
    except Exception as e:
        return f"CParser rejects the text the generator is proved to print: {type(e).__name__}: {e}"
    if show_ast(a0, False) != tree:
        return "CParser's tree for the generated text is not unit_emb (the tree the theorems speak about)"
    for rp, want in ((False, text0), (True, text1)):
        got = c_generator.CGenerator(reduce_parentheses=rp).visit(a0)
        if got != want:
            return f"CGenerator(reduce_parentheses={rp}) does not print utext: first difference at {next((i for i, (x, y) in enumerate(zip(got, want)) if x != y), min(len(got), len(want)))}"
    try:
        a1 = c_parser.CParser().parse(text1, "f.c")
    except Exception as e:
        return f"CParser rejects the reduce_parentheses text: {e}"
    if show_ast(a1, False) != tree:
        return "the reduce_parentheses text parses to a different tree"
    # the lexer delivers exactly unit_toks (kinds and spellings); identifiers are classified ID (no typedef in scope)
    lx = c_lexer.CLexer(lambda m, l, c: None, lambda: None, lambda: None, lambda n: False)
    lx.input(text0)
    got = []
    while True:
        t = lx.token()
        if t is None:
            break
        got.append((t.type, t.value))
    want = [tuple(x.split("\x1c")) for x in toks.split("\x1d")] if toks else []
    norm = lambda k: k.lstrip("_") if False else k
    if [(norm(k), v) for k, v in got] != [(norm(k), v) for k, v in want]:
        return f"CLexer does not deliver unit_toks: {got[:6]} ... vs {want[:6]} ..."
    return None


def run(ctx, n_units, broken, tag):
    """generate, evaluate the specification functions in the kernel, compare with the implementation"""
    r = ctx.rng
    units = [gen_unit(r) for _ in range(n_units)]
    recs, err = evaluate(units, os.path.join(VERIF, "build", "langcases_" + tag))
    if recs is None:
        broken.append({"kind": "correspondence", "name": "theorem language vs implementation (the specification functions could not be evaluated)", "detail": err})
        return
    if len(recs) != len(units):
        broken.append({"kind": "correspondence", "name": "theorem language vs implementation", "detail": f"{len(recs)} records for {len(units)} units"})
        return
    for u, rec in zip(units, recs):
        ctx.evaluations += 1
        ctx.count("suite:theorem-language")
        ctx.nontriv(("lang", u))
        ctx.traces += 1
        bad = check_unit(rec) if len(rec) == 4 else "malformed record"
        if bad:
            ctx.violation({"property": tag, "suite": "theorem-language", "input": rec[0] if rec else u, "coq_term": u[:2000], "problem": bad})
            return
    if len(ctx.samples) < 6 and recs:
        ctx.sample({"suite": "theorem-language", "text": recs[0][0][:400]})
