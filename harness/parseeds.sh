#!/bin/sh
# parallel seed runs: parseeds.sh <workers> <listfile> ; listfile lines: "<--r2|--r3> <group> <i> [checks...]"
# each worker has its own copy of /verif and its own worktree of /repo (VERIF_REPO), so /repo itself is never touched
W=$1; LIST=$2; B=${PAR_BASE:-0}   # PAR_BASE: first worker number minus one (so that two runs can coexist)
mkdir -p /tmp/par
for k in $(seq $((B+1)) $((B+W))); do
  [ -d /tmp/par/repo$k ] || git -C /repo worktree add -f /tmp/par/repo$k HEAD >/dev/null 2>&1
  git -C /tmp/par/repo$k checkout -- . 2>/dev/null
  git -C /tmp/par/repo$k clean -fdq 2>/dev/null
  git -C /tmp/par/repo$k checkout -q --detach "$(git -C /repo rev-parse HEAD)"
  rsync -a --delete --exclude seeded /verif/ /tmp/par/verif$k/
  mkdir -p /tmp/par/verif$k/seeded
done
: > /tmp/par/jobs$B.txt
# all seeds of one group go to one worker (their confirmation step shares the group's scratch worktree)
/venv/bin/python - "$W" "$LIST" "$B" <<'PY'
import sys
W=int(sys.argv[1]); B=int(sys.argv[3]); groups={}
with open(f'/tmp/par/jobs{B}.txt','w') as out:
    for line in open(sys.argv[2]):
        line=line.strip()
        if not line: continue
        g=line.split()[1]
        k=groups.setdefault(g, B + len(groups) % W + 1)
        out.write(f"{k} {line}\n")
PY
for k in $(seq $((B+1)) $((B+W))); do
  ( grep "^$k " /tmp/par/jobs$B.txt | cut -d' ' -f2- | while read -r args; do
      echo "=== $args"
      cd /tmp/par/verif$k && VERIF_REPO=/tmp/par/repo$k VERIF_JOBS=4 /venv/bin/python harness/seedtest.py $args
    done > /tmp/par/log$k.txt 2>&1 ) &
done
wait
for k in $(seq $((B+1)) $((B+W))); do cat /tmp/par/log$k.txt; done | grep -E "^===|detected by|NOT CONFIRMED|does not apply"
