"""Whole-parser correspondence: implementation runner + canonical forms."""
from lib import *
from lexcorr import with_timeout, Timeout


def show_ast(v, wc):
    if v is None:
        return "None"
    if isinstance(v, str):
        return repr(v)
    if isinstance(v, list):
        return "[" + ",".join(show_ast(e, wc) for e in v) + "]"
    slots = [s for s in type(v).__slots__ if s not in ("coord", "__weakref__")]
    out = "(" + type(v).__name__ + "".join(" " + show_ast(getattr(v, s), wc) for s in slots)
    if wc:
        co = v.coord
        out += " @" + ("None" if co is None else f"{co.file}:{co.line}:{co.column}")
    return out + ")"


class CountingStream:
    pass


def impl_parse(text, filename="f.c", wc=True, count=True):
    """Canonical outcome of CParser.parse on the real implementation."""
    from pycparser import c_parser
    ticks = [0]
    if count:
        base = c_parser._TokenStream

        class Counting(base):
            def next(self):
                ticks[0] += 1
                return base.next(self)
        c_parser._TokenStream = Counting
    try:
        try:
            p = c_parser.CParser()
            ast = with_timeout(30, p.parse, text, filename)
            return US.join(["OK", show_ast(ast, wc), str(ticks[0])])
        except c_parser.ParseError as e:
            return US.join(["E", str(e)])
        except RecursionError:
            return "R"
        except Timeout:
            return "TIMEOUT"
        except Exception as e:
            return US.join(["C", type(e).__name__])
    finally:
        if count:
            c_parser._TokenStream = base


def model_req(text, filename="f.c", wc=True):
    return Model.enc(20, 1 if wc else 0, filename, text)
