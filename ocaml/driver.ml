(* Driver for the extracted model: one request per input line (space-separated
   non-negative integers), one result per output line (space-separated code
   points).  Only I/O and int<->N conversion live here. *)

let rec pos_of_int (n : int) : Model.positive =
  if n = 1 then Model.XH
  else if n land 1 = 0 then Model.XO (pos_of_int (n lsr 1))
  else Model.XI (pos_of_int (n lsr 1))

let n_of_int (n : int) : Model.n = if n = 0 then Model.N0 else Model.Npos (pos_of_int n)

let rec int_of_pos (p : Model.positive) : int =
  match p with Model.XH -> 1 | Model.XO q -> 2 * int_of_pos q | Model.XI q -> 2 * int_of_pos q + 1

let int_of_n (x : Model.n) : int = match x with Model.N0 -> 0 | Model.Npos p -> int_of_pos p

let parse_line (line : string) : Model.n list =
  let len = String.length line in
  let rec go i acc cur has =
    if i >= len then List.rev (if has then n_of_int cur :: acc else acc)
    else
      let c = line.[i] in
      if c >= '0' && c <= '9' then go (i + 1) acc (cur * 10 + Char.code c - 48) true
      else go (i + 1) (if has then n_of_int cur :: acc else acc) 0 false
  in
  go 0 [] 0 false

let () =
  let buf = Buffer.create 65536 in
  (try
     while true do
       let line = input_line stdin in
       let req = parse_line line in
       let res = Model.handle req in
       Buffer.clear buf;
       List.iter (fun x -> Buffer.add_string buf (string_of_int (int_of_n x)); Buffer.add_char buf ' ') res;
       Buffer.add_char buf '\n';
       print_string (Buffer.contents buf);
       flush stdout
     done
   with End_of_file -> ())
