#!/bin/sh
# Build the framework from files on disk only (offline): translate /repo's tables,
# compile the Coq development (full .vo), extract the model, build the OCaml driver.
cd "$(dirname "$0")"
exec /venv/bin/python harness/setup.py
